#!/bin/bash
# Builds the framework offline from files on disk and runs its self-tests.
set -e
cd "$(dirname "$0")"
export CARGO_NET_OFFLINE=true
cargo build --release --offline -p fvh
cargo test --release --offline -p refimpl
if command -v python3-vt >/dev/null 2>&1 && [ -f tools/derive_constants.py ]; then
  python3-vt tools/derive_constants.py
fi
echo "setup ok"
