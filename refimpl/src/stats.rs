//! Tail probabilities used by the statistical checks.

/// ln Gamma(x), Lanczos approximation (g = 7, n = 9), |relative error| < 1e-13 for x > 0.5.
pub fn ln_gamma(x: f64) -> f64 {
    const G: f64 = 7.0;
    const C: [f64; 9] = [
        0.99999999999980993,
        676.5203681218851,
        -1259.1392167224028,
        771.32342877765313,
        -176.61502916214059,
        12.507343278686905,
        -0.13857109526572012,
        9.9843695780195716e-6,
        1.5056327351493116e-7,
    ];
    if x < 0.5 {
        return (std::f64::consts::PI / (std::f64::consts::PI * x).sin()).ln() - ln_gamma(1.0 - x);
    }
    let x = x - 1.0;
    let mut a = C[0];
    let t = x + G + 0.5;
    for (i, c) in C.iter().enumerate().skip(1) {
        a += c / (x + i as f64);
    }
    0.5 * (2.0 * std::f64::consts::PI).ln() + (x + 0.5) * t.ln() - t + a.ln()
}

/// Upper regularised incomplete gamma Q(a, x) = Gamma(a, x) / Gamma(a).
pub fn gamma_q(a: f64, x: f64) -> f64 {
    if x <= 0.0 {
        return 1.0;
    }
    if x < a + 1.0 {
        // series for P
        let mut sum = 1.0 / a;
        let mut term = sum;
        let mut ap = a;
        for _ in 0..100000 {
            ap += 1.0;
            term *= x / ap;
            sum += term;
            if term.abs() < sum.abs() * 1e-16 {
                break;
            }
        }
        let p = sum * (-x + a * x.ln() - ln_gamma(a)).exp();
        1.0 - p
    } else {
        // continued fraction (modified Lentz)
        let tiny = 1e-300;
        let mut b = x + 1.0 - a;
        let mut c = 1.0 / tiny;
        let mut d = 1.0 / b;
        let mut h = d;
        for i in 1..100000 {
            let an = -(i as f64) * (i as f64 - a);
            b += 2.0;
            d = an * d + b;
            if d.abs() < tiny {
                d = tiny;
            }
            c = b + an / c;
            if c.abs() < tiny {
                c = tiny;
            }
            d = 1.0 / d;
            let del = d * c;
            h *= del;
            if (del - 1.0).abs() < 1e-16 {
                break;
            }
        }
        (-x + a * x.ln() - ln_gamma(a)).exp() * h
    }
}

/// P[chi^2_k >= x]
pub fn chi2_sf(x: f64, k: f64) -> f64 {
    gamma_q(k / 2.0, x / 2.0)
}

/// P[chi^2_k <= x]
pub fn chi2_cdf(x: f64, k: f64) -> f64 {
    1.0 - chi2_sf(x, k)
}

/// P[Z >= z] for a standard normal.
pub fn normal_sf(z: f64) -> f64 {
    0.5 * gamma_q(0.5, z * z / 2.0) * if z >= 0.0 { 1.0 } else { -1.0 } + if z >= 0.0 { 0.0 } else { 1.0 }
}

/// Smallest x with chi2_sf(x, k) <= p (bisection).
pub fn chi2_isf(p: f64, k: f64) -> f64 {
    let mut lo = 0.0;
    let mut hi = k + 100.0 * (k.sqrt() + 10.0);
    for _ in 0..200 {
        let mid = 0.5 * (lo + hi);
        if chi2_sf(mid, k) > p {
            lo = mid;
        } else {
            hi = mid;
        }
    }
    hi
}

/// z with normal_sf(z) = p (bisection), for p in (0, 0.5].
pub fn normal_isf(p: f64) -> f64 {
    let (mut lo, mut hi) = (0.0, 40.0);
    for _ in 0..200 {
        let mid = 0.5 * (lo + hi);
        if normal_sf(mid) > p {
            lo = mid;
        } else {
            hi = mid;
        }
    }
    hi
}

#[cfg(test)]
mod tests {
    use super::*;
    #[test]
    fn known_quantiles() {
        assert!((normal_sf(1.959963984540054) - 0.025).abs() < 1e-9);
        assert!((normal_sf(0.0) - 0.5).abs() < 1e-12);
        assert!((normal_sf(-1.0) - 0.8413447460685429).abs() < 1e-9);
        assert!((normal_sf(6.0) / 9.865876450377e-10 - 1.0).abs() < 1e-6);
        // chi2 with 1 dof: sf(3.841458820694124) = 0.05
        assert!((chi2_sf(3.841458820694124, 1.0) - 0.05).abs() < 1e-9);
        // chi2 with 10 dof: sf(18.307038053275146) = 0.05
        assert!((chi2_sf(18.307038053275146, 10.0) - 0.05).abs() < 1e-9);
        // 255 dof, sf(310.457388) ~ 0.01
        assert!((chi2_sf(310.45738821990585, 255.0) - 0.01).abs() < 1e-6);
        assert!((chi2_isf(0.05, 10.0) - 18.307038053275146).abs() < 1e-6);
        assert!((normal_isf(0.025) - 1.959963984540054).abs() < 1e-8);
        assert!((ln_gamma(10.0) - 12.801827480081469).abs() < 1e-10);
    }
}
