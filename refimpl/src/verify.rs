//! Verify, Algorithm 16 of the specification, on byte strings.

use crate::codec;
use crate::hash::hash_to_point;
use crate::keys::{decode_pk, split_sig};
use crate::params::{params, Q};
use crate::zq::{centred, negacyclic_mul_fast, negacyclic_mul};

#[derive(Clone, Debug, PartialEq, Eq)]
pub enum Outcome {
    /// bytes are not a signature / public key of this variant at all
    NotDecodable,
    /// the compressed part is not a well-formed encoding
    BadEncoding(codec::Reject),
    /// well-formed; squared norm of (s1, s2)
    Norm(i64),
}

pub fn spec_verify_traced(msg: &[u8], sig: &[u8], pk: &[u8], n: usize, schoolbook: bool) -> Outcome {
    let h = match decode_pk(pk, n) {
        Ok(h) => h,
        Err(_) => return Outcome::NotDecodable,
    };
    let parts = match split_sig(sig, n) {
        Ok(p) => p,
        Err(_) => return Outcome::NotDecodable,
    };
    let s2 = match codec::decode_traced(parts.body, n) {
        Ok(v) => v,
        Err((why, _)) => return Outcome::BadEncoding(why),
    };
    Outcome::Norm(norm_of(msg, parts.salt, &s2, &h, schoolbook))
}

/// ||(s1, s2)||^2 with s1 = c - s2*h centred.
pub fn norm_of(msg: &[u8], salt: &[u8], s2: &[i64], h: &[i64], schoolbook: bool) -> i64 {
    let n = h.len();
    let mut r_cat_m = salt.to_vec();
    r_cat_m.extend_from_slice(msg);
    let c = hash_to_point(&r_cat_m, n);
    let s2h = if schoolbook { negacyclic_mul(s2, h) } else { negacyclic_mul_fast(s2, h) };
    let mut norm = 0i64;
    for i in 0..n {
        let s1 = centred(c[i] - s2h[i]);
        debug_assert!(s1.abs() <= Q / 2);
        norm += s1 * s1;
        norm += s2[i] * s2[i];
    }
    norm
}

/// true exactly when the specification accepts.
pub fn spec_verify(msg: &[u8], sig: &[u8], pk: &[u8], n: usize) -> bool {
    match spec_verify_traced(msg, sig, pk, n, false) {
        Outcome::Norm(x) => x <= params(n).bound,
        _ => false,
    }
}
