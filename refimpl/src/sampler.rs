//! SamplerZ and its building blocks, Algorithms 12-15 of the specification, in exact integer
//! arithmetic on decomposed doubles wherever the specification is integer-exact.

use crate::params::SIGMA_MAX;

/// Reverse cumulative distribution table of the specification (table 3.1), 72-bit entries.
/// `tools/derive_constants.py` re-derives it as sum_{j>i} floor(2^72 rho(j) / sum rho).
pub const RCDT: [u128; 18] = [
    3024686241123004913666,
    1564742784480091954050,
    636254429462080897535,
    199560484645026482916,
    47667343854657281903,
    8595902006365044063,
    1163297957344668388,
    117656387352093658,
    8867391802663976,
    496969357462633,
    20680885154299,
    638331848991,
    14602316184,
    247426747,
    3104126,
    28824,
    198,
    1,
];

/// Algorithm 12 on an explicit 72-bit integer.
pub fn base_sampler_u(u: u128) -> i64 {
    assert!(u < (1u128 << 72));
    let mut z0 = 0;
    for r in RCDT.iter() {
        if u < *r {
            z0 += 1;
        }
    }
    z0
}

/// Big-endian interpretation of 9 bytes, as the implementation documents ("endianness" test).
pub fn u72_from_bytes(bytes: &[u8; 9]) -> u128 {
    bytes.iter().fold(0u128, |acc, &b| (acc << 8) | b as u128)
}

pub fn u72_to_bytes(u: u128) -> [u8; 9] {
    let mut out = [0u8; 9];
    for i in 0..9 {
        out[8 - i] = (u >> (8 * i)) as u8;
    }
    out
}

/// Polynomial coefficients of Algorithm 13 (FACCT), scaled by 2^63.
pub const C: [u64; 13] = [
    0x00000004741183A3,
    0x00000036548CFC06,
    0x0000024FDCBF140A,
    0x0000171D939DE045,
    0x0000D00CF58F6F84,
    0x000680681CF796E3,
    0x002D82D8305B0FEA,
    0x011111110E066FD0,
    0x0555555555070F00,
    0x155555555581FF00,
    0x400000000002B400,
    0x7FFFFFFFFFFF4800,
    0x8000000000000000,
];

/// floor(2^63 * x) computed exactly from the bits of x; negative x and NaN give 0, values
/// >= 2^64 saturate (the conversions the algorithm performs are only specified on [0, 2)).
pub fn floor_2e63(x: f64) -> u64 {
    if !(x > 0.0) {
        return 0;
    }
    let bits = x.to_bits();
    let exp = ((bits >> 52) & 0x7FF) as i64;
    let frac = bits & ((1u64 << 52) - 1);
    let (mant, e) = if exp == 0 { (frac, -1074i64) } else { (frac | (1u64 << 52), exp - 1075) };
    // x = mant * 2^e ; want floor(mant * 2^(e+63))
    let sh = e + 63;
    if sh >= 0 {
        if sh >= 12 {
            return u64::MAX;
        }
        let v = (mant as u128) << sh;
        if v > u64::MAX as u128 {
            u64::MAX
        } else {
            v as u64
        }
    } else if -sh >= 64 {
        0
    } else {
        mant >> (-sh)
    }
}

/// Algorithm 13: integer approximation of 2^63 * ccs * exp(-x) for x in [0, ln 2], ccs in [0, 1].
pub fn approx_exp(x: f64, ccs: f64) -> u64 {
    let mut y: u64 = C[0];
    let z = floor_2e63(x);
    for c in C.iter().skip(1) {
        let zy = ((z as u128) * (y as u128)) >> 63;
        y = c.wrapping_sub(zy as u64);
    }
    let z = floor_2e63(ccs);
    (((z as u128) * (y as u128)) >> 63) as u64
}

pub const LN2: f64 = 0.69314718055994530941;
pub const INV_LN2: f64 = 1.4426950408889634074;

/// The 64-bit threshold of Algorithm 14 for a given reduction s.
pub fn ber_exp_threshold(x: f64, ccs: f64, s: u64) -> u64 {
    let r = x - (s as f64) * LN2;
    let sh = std::cmp::min(s, 63) as u32;
    let e = approx_exp(r, ccs) as u128;
    (((e << 1).wrapping_sub(1)) >> sh) as u64
}

/// The values of floor(x / ln 2) that a conforming evaluation may produce: by division (the
/// specification's formula) or by multiplication with 1/ln 2 (the reference code).
pub fn s_candidates(x: f64) -> Vec<u64> {
    let a = (x / LN2).floor();
    let b = (x * INV_LN2).floor();
    let mut v = vec![a.max(0.0) as u64];
    if b != a {
        v.push(b.max(0.0) as u64);
    }
    v
}

#[derive(Clone, Copy, Debug, PartialEq, Eq)]
pub enum Ber {
    Accept,
    Reject,
    /// all supplied bytes tie with the threshold: the answer depends on a byte not supplied
    Undetermined,
}

/// Algorithm 14 with the lazily drawn bytes supplied up front, most significant first.
pub fn ber_exp_with_s(x: f64, ccs: f64, s: u64, bytes: &[u8]) -> Ber {
    assert!(bytes.len() <= 8);
    let z = ber_exp_threshold(x, ccs, s);
    for (k, &b) in bytes.iter().enumerate() {
        let zi = ((z >> (56 - 8 * k)) & 0xFF) as i32;
        let w = b as i32 - zi;
        if w != 0 {
            return if w < 0 { Ber::Accept } else { Ber::Reject };
        }
    }
    if bytes.len() == 8 {
        return Ber::Reject; // w = 0 after the last byte
    }
    // the bytes the specification would go on to draw are compared with the rest of z: when
    // that rest is zero no byte is below it, so every continuation ends in "reject"
    let rest_bits = 64 - 8 * bytes.len() as u32;
    if z & ((1u64 << rest_bits) - 1) == 0 {
        Ber::Reject
    } else {
        Ber::Undetermined
    }
}

/// All answers a conforming BerExp may give on this input.
pub fn ber_exp_allowed(x: f64, ccs: f64, bytes: &[u8]) -> Vec<Ber> {
    let mut out = vec![];
    for s in s_candidates(x) {
        let r = ber_exp_with_s(x, ccs, s, bytes);
        if !out.contains(&r) {
            out.push(r);
        }
    }
    out
}

/// Number of leading bytes that tie with the threshold (using the division form of s).
pub fn tie_depth(x: f64, ccs: f64, bytes: &[u8]) -> usize {
    let z = ber_exp_threshold(x, ccs, s_candidates(x)[0]);
    bytes
        .iter()
        .enumerate()
        .take_while(|(k, &b)| b as u64 == (z >> (56 - 8 * k)) & 0xFF)
        .count()
}

#[derive(Clone, Debug, PartialEq)]
pub struct Trace {
    pub z: i64,
    pub bytes_consumed: usize,
    pub iterations: usize,
    pub max_z0: i64,
    /// some Bernoulli trial along the way was ambiguous (two legitimate values of s disagree,
    /// or all supplied bytes tied)
    pub ambiguous: bool,
}

/// (x, ccs) of the Bernoulli trial in the first iteration of Algorithm 15, given the bytes that
/// iteration draws for the base sampler and the sign.
pub fn first_trial(mu: f64, sigma: f64, sigma_min: f64, nine: &[u8; 9], sign_byte: u8) -> (f64, f64) {
    let inv_2sigma_max_sq = 1.0 / (2.0 * SIGMA_MAX * SIGMA_MAX);
    let isigma = 1.0 / sigma;
    let dss = 0.5 * isigma * isigma;
    let r = mu - mu.floor();
    let z0 = base_sampler_u(u72_from_bytes(nine));
    let b = (sign_byte & 1) as i64;
    let z = b + (2 * b - 1) * z0;
    let zr = z as f64 - r;
    (zr * zr * dss - ((z0 * z0) as f64) * inv_2sigma_max_sq, sigma_min * isigma)
}

/// Algorithm 15, consuming bytes in the order the implementation documents: 9 for the base
/// sampler, 1 for the sign bit, 7 for the Bernoulli trial. `None` if the byte source runs out or
/// `max_iter` is exceeded.
pub fn sampler_z(
    mu: f64,
    sigma: f64,
    sigma_min: f64,
    next: &mut dyn FnMut() -> Option<u8>,
    max_iter: usize,
) -> Option<Trace> {
    let inv_2sigma_max_sq = 1.0 / (2.0 * SIGMA_MAX * SIGMA_MAX);
    let isigma = 1.0 / sigma;
    let dss = 0.5 * isigma * isigma;
    let s = mu.floor();
    let r = mu - s;
    let ccs = sigma_min * isigma;
    let mut consumed = 0usize;
    let mut ambiguous = false;
    let mut max_z0 = 0;
    for it in 1..=max_iter {
        let mut nine = [0u8; 9];
        for b in nine.iter_mut() {
            *b = next()?;
        }
        let z0 = base_sampler_u(u72_from_bytes(&nine));
        max_z0 = max_z0.max(z0);
        let b = (next()? & 1) as i64;
        let z = b + (2 * b - 1) * z0;
        let zr = z as f64 - r;
        let x = zr * zr * dss - ((z0 * z0) as f64) * inv_2sigma_max_sq;
        let mut seven = [0u8; 7];
        for b in seven.iter_mut() {
            *b = next()?;
        }
        consumed += 17;
        let allowed = ber_exp_allowed(x, ccs, &seven);
        if allowed.len() > 1 || allowed[0] == Ber::Undetermined {
            ambiguous = true;
        }
        if allowed[0] == Ber::Accept {
            return Some(Trace { z: z + s as i64, bytes_consumed: consumed, iterations: it, max_z0, ambiguous });
        }
    }
    None
}

/// Probability mass function of D_{Z, mu, sigma} on [lo, hi] (normalised over a window wide
/// enough that the truncated mass is < 1e-30).
pub fn discrete_gaussian_pmf(mu: f64, sigma: f64, lo: i64, hi: i64) -> Vec<f64> {
    let w = (sigma * 14.0).ceil() as i64 + 2;
    let c = mu.round() as i64;
    let rho = |z: i64| (-((z as f64 - mu).powi(2)) / (2.0 * sigma * sigma)).exp();
    let total: f64 = (c - w..=c + w).map(rho).sum();
    (lo..=hi).map(|z| rho(z) / total).collect()
}

#[cfg(test)]
mod tests {
    use super::*;

    fn unhex(s: &str) -> Vec<u8> {
        (0..s.len() / 2).map(|i| u8::from_str_radix(&s[2 * i..2 * i + 2], 16).unwrap()).collect()
    }

    #[test]
    fn floor_conversion() {
        assert_eq!(floor_2e63(0.0), 0);
        assert_eq!(floor_2e63(1.0), 1u64 << 63);
        assert_eq!(floor_2e63(0.5), 1u64 << 62);
        assert_eq!(floor_2e63(-1e-17), 0);
        assert_eq!(floor_2e63(1.5e-19), 1);
        assert_eq!(floor_2e63(1.0e-19), 0);
        let x = 0.3141592653589793f64;
        assert_eq!(floor_2e63(x), (x * 9223372036854775808.0).floor() as u64);
    }

    #[test]
    fn approx_exp_is_accurate() {
        // against f64 exp: the polynomial is accurate to better than 2^-44 relative
        let mut worst = 0.0f64;
        for i in 0..=2000 {
            let x = LN2 * (i as f64) / 2000.0;
            for &ccs in &[1.0f64, 0.75, 0.7021, 0.9999] {
                let got = approx_exp(x, ccs) as f64;
                let want = 9223372036854775808.0 * ccs * (-x).exp();
                worst = worst.max(((got - want) / want).abs());
            }
        }
        assert!(worst < 2f64.powi(-44), "worst relative error 2^{}", worst.log2());
    }

    /// Table 3.2 of the specification; the byte strings have six zero bytes inserted after each
    /// Bernoulli byte because BerExp's bytes are supplied eagerly (7 at a time) here.
    #[test]
    fn spec_kats() {
        let sigma_min = 1.277833697;
        let kats: [(f64, f64, &str, i64); 8] = [
            (-91.90471153063714, 1.7037990414754918, "0fc5442ff043d66e91d1ea000000000000cac64ea5450a22941edc6c", -92),
            (-8.322564895434937, 1.7037990414754918, "f4da0f8d8444d1a77265c2000000000000ef6f98bbbb4bee7db8d9b3", -8),
            (-19.096516109216804, 1.7035823083824078, "db47f6d7fb9b19f25c36d6000000000000b9334d477a8bc0be68145d", -20),
            (-11.335543982423326, 1.7035823083824078, "ae41b4f5209665c74d00dc000000000000c1a8168a7bb516b3190cb42c1ded26cd52000000000000aed770eca7dd334e0547bcc3c163ce0b", -12),
            (7.9386734193997555, 1.6984647769450156, "31054166c1012780c603ae0000000000009b833cec73f2f41ca5807c000000000000c89c92158834632f9b1555", 8),
            (-28.990850086867255, 1.6984647769450156, "737e9d68a50a06dbbc6477", -30),
            (-9.071257914091655, 1.6980782114808988, "a98ddd14bf0bf22061d632", -10),
            (-43.88754568839566, 1.6980782114808988, "3cbf6818a68f7ab9991514", -41),
        ];
        for (mu, sigma, hex, want) in kats {
            let bytes = unhex(hex);
            let mut i = 0;
            // missing trailing bytes of the last trial read as zero, as in the published vectors
            let mut next = || {
                let b = bytes.get(i).cloned().unwrap_or(0);
                i += 1;
                Some(b)
            };
            let t = sampler_z(mu, sigma, sigma_min, &mut next, 100).unwrap();
            assert_eq!(t.z, want);
        }
    }

    #[test]
    fn base_sampler_edges() {
        assert_eq!(base_sampler_u(0), 18);
        assert_eq!(base_sampler_u(1), 17);
        assert_eq!(base_sampler_u(RCDT[0]), 0);
        assert_eq!(base_sampler_u(RCDT[0] - 1), 1);
        assert_eq!(base_sampler_u((1u128 << 72) - 1), 0);
    }

    #[test]
    fn pmf_sums_to_one() {
        let p = discrete_gaussian_pmf(0.3, 1.5, -30, 30);
        assert!((p.iter().sum::<f64>() - 1.0).abs() < 1e-12);
    }
}
