//! Reference models for the Falcon signature scheme, written from the specification
//! (https://falcon-sign.info/falcon.pdf, v1.2) and from first principles.
//! No dependency on the crate under test.

pub mod codec;
pub mod hash;
pub mod keccak;
pub mod keys;
pub mod lattice;
pub mod params;
pub mod sampler;
pub mod stats;
pub mod verify;
pub mod zq;
