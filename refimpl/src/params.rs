//! Falcon parameters derived from the specification's formulas (section 2.6 / table 3.3).

pub const Q: i64 = 12289;

#[derive(Clone, Copy, Debug)]
pub struct Params {
    pub n: usize,
    pub logn: u32,
    pub sigma: f64,
    pub sigma_min: f64,
    pub sigma_max: f64,
    /// floor(beta^2)
    pub bound: i64,
    pub pk_len: usize,
    pub sk_len: usize,
    /// total length of a padded signature (header + salt + body)
    pub sig_len: usize,
    /// width in bits of the f and g fields of the secret key
    pub fg_bits: usize,
}

pub const SIGMA_MAX: f64 = 1.8205;

/// sigma = (1/pi) * sqrt(ln(4n(1+1/eps))/2) * 1.17 * sqrt(q), eps = 1/sqrt(Qs*lambda), Qs = 2^64.
pub fn derive_sigma(n: usize) -> f64 {
    let lambda = if n == 512 { 128.0 } else { 256.0 };
    let qs = 18446744073709551616.0f64; // 2^64
    let eps = 1.0 / (qs * lambda).sqrt();
    let smooth = (1.0 / std::f64::consts::PI) * ((4.0 * n as f64 * (1.0 + 1.0 / eps)).ln() / 2.0).sqrt();
    smooth * 1.17 * (Q as f64).sqrt()
}

pub fn params(n: usize) -> Params {
    assert!(n == 512 || n == 1024);
    let sigma = derive_sigma(n);
    let sigma_min = sigma / (1.17 * (Q as f64).sqrt());
    let beta = 1.1 * sigma * ((2 * n) as f64).sqrt();
    let bound = (beta * beta).floor() as i64;
    let logn = if n == 512 { 9 } else { 10 };
    let fg_bits = if n == 512 { 6 } else { 5 };
    Params {
        n,
        logn,
        sigma,
        sigma_min,
        sigma_max: SIGMA_MAX,
        bound,
        pk_len: 1 + 14 * n / 8,
        sk_len: 1 + (2 * fg_bits * n + 8 * n) / 8,
        sig_len: if n == 512 { 666 } else { 1280 },
        fg_bits,
    }
}

#[cfg(test)]
mod tests {
    use super::*;
    #[test]
    fn printed_values() {
        // values printed in table 3.3 of the specification
        let p = params(512);
        assert!((p.sigma - 165.7366171829776).abs() < 1e-9, "{}", p.sigma);
        assert!((p.sigma_min - 1.2778336969128337).abs() < 1e-12);
        assert_eq!(p.bound, 34034726);
        assert_eq!((p.pk_len, p.sk_len, p.sig_len), (897, 1281, 666));
        let p = params(1024);
        assert!((p.sigma - 168.38857144654395).abs() < 1e-9, "{}", p.sigma);
        assert!((p.sigma_min - 1.298280334344292).abs() < 1e-12);
        assert_eq!(p.bound, 70265242);
        assert_eq!((p.pk_len, p.sk_len, p.sig_len), (1793, 2305, 1280));
    }
}
