//! Byte formats of public keys, secret keys and signatures (specification section 3.11),
//! and re-framing between this library's padded signatures and PQClean's.

use crate::params::{params, Q};

#[derive(Clone, Copy, Debug, PartialEq, Eq)]
pub enum KeyReject {
    Length,
    Header,
    Variant,
    /// a public-key coefficient >= q, or the reserved minimum value in a secret-key field
    FieldRange,
}

/// Big-endian bit packer.
pub struct BitWriter {
    bytes: Vec<u8>,
    nbits: usize,
}

impl BitWriter {
    pub fn new() -> Self {
        BitWriter { bytes: vec![], nbits: 0 }
    }
    pub fn push(&mut self, value: u32, width: usize) {
        for j in (0..width).rev() {
            if self.nbits % 8 == 0 {
                self.bytes.push(0);
            }
            if (value >> j) & 1 == 1 {
                let last = self.bytes.len() - 1;
                self.bytes[last] |= 0x80 >> (self.nbits % 8);
            }
            self.nbits += 1;
        }
    }
    pub fn finish(self) -> Vec<u8> {
        self.bytes
    }
}

impl Default for BitWriter {
    fn default() -> Self {
        Self::new()
    }
}

pub struct BitReader<'a> {
    bytes: &'a [u8],
    pos: usize,
}

impl<'a> BitReader<'a> {
    pub fn new(bytes: &'a [u8]) -> Self {
        BitReader { bytes, pos: 0 }
    }
    pub fn take(&mut self, width: usize) -> Option<u32> {
        if self.pos + width > 8 * self.bytes.len() {
            return None;
        }
        let mut v = 0u32;
        for _ in 0..width {
            let bit = (self.bytes[self.pos / 8] >> (7 - self.pos % 8)) & 1;
            v = (v << 1) | bit as u32;
            self.pos += 1;
        }
        Some(v)
    }
    pub fn remaining(&self) -> usize {
        8 * self.bytes.len() - self.pos
    }
}

// ------------------------------------------------------------------ public key

pub fn encode_pk(h: &[i64]) -> Vec<u8> {
    let n = h.len();
    let p = params(n);
    let mut w = BitWriter::new();
    w.push(p.logn, 8);
    for &c in h {
        assert!((0..Q).contains(&c));
        w.push(c as u32, 14);
    }
    w.finish()
}

/// Decode a public key for the variant with degree n.
pub fn decode_pk(b: &[u8], n: usize) -> Result<Vec<i64>, KeyReject> {
    let p = params(n);
    if b.len() != p.pk_len {
        return Err(KeyReject::Length);
    }
    if b[0] >> 4 != 0 {
        return Err(KeyReject::Header);
    }
    if (b[0] & 15) as u32 != p.logn {
        return Err(KeyReject::Variant);
    }
    let mut r = BitReader::new(&b[1..]);
    let mut h = Vec::with_capacity(n);
    for _ in 0..n {
        let c = r.take(14).ok_or(KeyReject::Length)? as i64;
        if c >= Q {
            return Err(KeyReject::FieldRange);
        }
        h.push(c);
    }
    Ok(h)
}

// ------------------------------------------------------------------ secret key

fn push_signed(w: &mut BitWriter, v: i64, width: usize) -> bool {
    let lim = 1i64 << (width - 1);
    if v <= -lim || v >= lim {
        return false;
    }
    w.push((v & ((1i64 << width) - 1)) as u32, width);
    true
}

/// `None` when a coefficient does not fit its field.
pub fn encode_sk(f: &[i64], g: &[i64], cap_f: &[i64]) -> Option<Vec<u8>> {
    let n = f.len();
    let p = params(n);
    let mut w = BitWriter::new();
    w.push(0x50 | p.logn, 8);
    for &c in f {
        if !push_signed(&mut w, c, p.fg_bits) {
            return None;
        }
    }
    for &c in g {
        if !push_signed(&mut w, c, p.fg_bits) {
            return None;
        }
    }
    for &c in cap_f {
        if !push_signed(&mut w, c, 8) {
            return None;
        }
    }
    Some(w.finish())
}

fn take_signed(r: &mut BitReader, width: usize) -> Result<i64, KeyReject> {
    let u = r.take(width).ok_or(KeyReject::Length)? as i64;
    let lim = 1i64 << (width - 1);
    if u == lim {
        return Err(KeyReject::FieldRange);
    }
    Ok(if u > lim { u - (1i64 << width) } else { u })
}

/// Decode (f, g, F) for the variant with degree n.
pub fn decode_sk(b: &[u8], n: usize) -> Result<(Vec<i64>, Vec<i64>, Vec<i64>), KeyReject> {
    let p = params(n);
    if b.is_empty() {
        return Err(KeyReject::Length);
    }
    if b[0] >> 4 != 5 {
        return Err(KeyReject::Header);
    }
    if (b[0] & 15) as u32 != p.logn {
        return Err(KeyReject::Variant);
    }
    if b.len() != p.sk_len {
        return Err(KeyReject::Length);
    }
    let mut r = BitReader::new(&b[1..]);
    let mut f = Vec::with_capacity(n);
    let mut g = Vec::with_capacity(n);
    let mut cf = Vec::with_capacity(n);
    for _ in 0..n {
        f.push(take_signed(&mut r, p.fg_bits)?);
    }
    for _ in 0..n {
        g.push(take_signed(&mut r, p.fg_bits)?);
    }
    for _ in 0..n {
        cf.push(take_signed(&mut r, 8)?);
    }
    Ok((f, g, cf))
}

/// The rejection the format rules of the property give for a secret-key string, if any, looking
/// only at length, header, variant and reserved field patterns (no algebraic validation).
pub fn sk_format_reject(b: &[u8], n: usize) -> Option<KeyReject> {
    decode_sk(b, n).err()
}

// ------------------------------------------------------------------ signature framing

/// Header byte of this library's padded signatures: 0 cc 1 nnnn with cc = 10.
pub fn native_sig_header(n: usize) -> u8 {
    0x50 | params(n).logn as u8
}

/// Header byte of PQClean's (compressed, unpadded) signatures: cc = 01.
pub fn pqclean_sig_header(n: usize) -> u8 {
    0x30 | params(n).logn as u8
}

pub struct SigParts<'a> {
    pub header: u8,
    pub salt: &'a [u8],
    pub body: &'a [u8],
}

/// Split a native signature; `Err` for wrong length / header.
pub fn split_sig(b: &[u8], n: usize) -> Result<SigParts<'_>, KeyReject> {
    let p = params(n);
    if b.len() != 666 && b.len() != 1280 {
        return Err(KeyReject::Length);
    }
    if b.len() != p.sig_len {
        return Err(KeyReject::Variant);
    }
    if b[0] != native_sig_header(n) {
        if b[0] & 0xF0 == 0x50 && (b[0] & 15 == 9 || b[0] & 15 == 10) {
            return Err(KeyReject::Variant);
        }
        return Err(KeyReject::Header);
    }
    Ok(SigParts { header: b[0], salt: &b[1..41], body: &b[41..] })
}

pub fn make_sig(n: usize, salt: &[u8], body: &[u8]) -> Vec<u8> {
    let p = params(n);
    assert_eq!(salt.len(), 40);
    assert_eq!(body.len(), p.sig_len - 41);
    let mut out = Vec::with_capacity(p.sig_len);
    out.push(native_sig_header(n));
    out.extend_from_slice(salt);
    out.extend_from_slice(body);
    out
}

/// native (padded) -> PQClean detached signature: relabel the header, strip trailing zero bytes.
pub fn native_to_pqclean(sig: &[u8], n: usize) -> Option<Vec<u8>> {
    let parts = split_sig(sig, n).ok()?;
    let mut body = parts.body.to_vec();
    while body.last() == Some(&0) {
        body.pop();
    }
    let mut out = vec![pqclean_sig_header(n)];
    out.extend_from_slice(parts.salt);
    out.extend_from_slice(&body);
    Some(out)
}

/// PQClean detached signature -> native (padded); None if it is longer than the fixed length.
pub fn pqclean_to_native(sig: &[u8], n: usize) -> Option<Vec<u8>> {
    let p = params(n);
    if sig.len() < 41 || sig.len() > p.sig_len || sig[0] != pqclean_sig_header(n) {
        return None;
    }
    let mut out = vec![native_sig_header(n)];
    out.extend_from_slice(&sig[1..]);
    out.resize(p.sig_len, 0);
    Some(out)
}

#[cfg(test)]
mod tests {
    use super::*;
    #[test]
    fn sk_round_trip() {
        for &n in &[512usize, 1024] {
            let p = params(n);
            let lim = (1i64 << (p.fg_bits - 1)) - 1;
            let f: Vec<i64> = (0..n as i64).map(|i| (i % (2 * lim + 1)) - lim).collect();
            let g: Vec<i64> = f.iter().rev().cloned().collect();
            let cf: Vec<i64> = (0..n as i64).map(|i| (i % 255) - 127).collect();
            let b = encode_sk(&f, &g, &cf).unwrap();
            assert_eq!(b.len(), p.sk_len);
            assert_eq!(decode_sk(&b, n).unwrap(), (f.clone(), g.clone(), cf.clone()));
            let mut bad = f.clone();
            bad[3] = lim + 1;
            assert!(encode_sk(&bad, &g, &cf).is_none());
            bad[3] = -lim - 1;
            assert!(encode_sk(&bad, &g, &cf).is_none());
        }
    }
    #[test]
    fn pk_round_trip() {
        for &n in &[512usize, 1024] {
            let h: Vec<i64> = (0..n as i64).map(|i| (i * 7919) % Q).collect();
            let b = encode_pk(&h);
            assert_eq!(b.len(), params(n).pk_len);
            assert_eq!(decode_pk(&b, n).unwrap(), h);
            let mut bad = b.clone();
            // first coefficient := 16383
            bad[1] = 0xFF;
            bad[2] |= 0xFC;
            assert_eq!(decode_pk(&bad, n), Err(KeyReject::FieldRange));
        }
    }
}
