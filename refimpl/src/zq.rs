//! Arithmetic modulo q = 12289 on i64 and the ring Z_q[X]/(X^n+1).
//! Everything here is either schoolbook or validated against schoolbook in the tests.

use crate::params::Q;

#[inline]
pub fn modq(a: i64) -> i64 {
    a.rem_euclid(Q)
}

/// Centred representative in [-6144, 6144].
#[inline]
pub fn centred(a: i64) -> i64 {
    let r = modq(a);
    if r > Q / 2 {
        r - Q
    } else {
        r
    }
}

pub fn powq(mut b: i64, mut e: u64) -> i64 {
    b = modq(b);
    let mut r = 1i64;
    while e > 0 {
        if e & 1 == 1 {
            r = r * b % Q;
        }
        b = b * b % Q;
        e >>= 1;
    }
    r
}

/// Multiplicative inverse by Fermat; 0 for 0.
pub fn invq(a: i64) -> i64 {
    powq(a, (Q - 2) as u64)
}

/// Multiplicative order of a (a != 0), by trial.
pub fn order(a: i64) -> u64 {
    let a = modq(a);
    assert!(a != 0);
    let mut x = a;
    let mut k = 1;
    while x != 1 {
        x = x * a % Q;
        k += 1;
    }
    k
}

/// Smallest generator of Z_q^*, found by search (q - 1 = 2^12 * 3).
pub fn generator() -> i64 {
    for g in 2..Q {
        if powq(g, ((Q - 1) / 2) as u64) != 1 && powq(g, ((Q - 1) / 3) as u64) != 1 {
            return g;
        }
    }
    unreachable!()
}

/// A primitive m-th root of unity for m a power of two dividing 4096.
pub fn primitive_root(m: usize) -> i64 {
    assert!(m.is_power_of_two() && m <= 4096);
    let g = generator();
    let r = powq(g, ((Q - 1) as usize / m) as u64);
    debug_assert!(m == 1 || powq(r, (m / 2) as u64) == Q - 1);
    r
}

/// Schoolbook product in Z_q[X]/(X^n+1); inputs need not be reduced.
pub fn negacyclic_mul(a: &[i64], b: &[i64]) -> Vec<i64> {
    let n = a.len();
    assert_eq!(n, b.len());
    let a: Vec<i64> = a.iter().map(|&x| modq(x)).collect();
    let b: Vec<i64> = b.iter().map(|&x| modq(x)).collect();
    let mut acc = vec![0i64; n];
    for i in 0..n {
        if a[i] == 0 {
            continue;
        }
        for j in 0..n {
            let k = i + j;
            let t = a[i] * b[j];
            if k < n {
                acc[k] += t;
            } else {
                acc[k - n] -= t;
            }
        }
        if i % 32 == 31 {
            for x in acc.iter_mut() {
                *x %= Q;
            }
        }
    }
    acc.into_iter().map(modq).collect()
}

/// Exact schoolbook product in Z[X]/(X^n+1) on i64 (caller guarantees no overflow).
pub fn negacyclic_mul_exact(a: &[i64], b: &[i64]) -> Vec<i64> {
    let n = a.len();
    assert_eq!(n, b.len());
    let mut acc = vec![0i64; n];
    for i in 0..n {
        if a[i] == 0 {
            continue;
        }
        for j in 0..n {
            let k = i + j;
            if k < n {
                acc[k] += a[i] * b[j];
            } else {
                acc[k - n] -= a[i] * b[j];
            }
        }
    }
    acc
}

/// Horner evaluation of a at x modulo q.
pub fn eval(a: &[i64], x: i64) -> i64 {
    let mut r = 0i64;
    for &c in a.iter().rev() {
        r = (r * x + modq(c)) % Q;
    }
    r
}

/// Evaluations of a at psi^(2k+1), k = 0..n-1 (psi a primitive 2n-th root), in this natural
/// order. O(n log n): twist by psi^i then a plain recursive cyclic DFT with omega = psi^2.
pub fn evaluate_at_roots(a: &[i64]) -> Vec<i64> {
    let n = a.len();
    assert!(n.is_power_of_two());
    let psi = primitive_root(2 * n);
    let mut tw = Vec::with_capacity(n);
    let mut p = 1i64;
    for &c in a {
        tw.push(modq(c) * p % Q);
        p = p * psi % Q;
    }
    dft(&tw, psi * psi % Q)
}

/// Inverse of `evaluate_at_roots`.
pub fn interpolate_from_roots(e: &[i64]) -> Vec<i64> {
    let n = e.len();
    let psi = primitive_root(2 * n);
    let omega_inv = invq(psi * psi % Q);
    let c = dft(e, omega_inv);
    let ninv = invq(n as i64);
    let psi_inv = invq(psi);
    let mut p = 1i64;
    let mut out = Vec::with_capacity(n);
    for x in c {
        out.push(x * ninv % Q * p % Q);
        p = p * psi_inv % Q;
    }
    out
}

/// Recursive radix-2 DFT: out[k] = sum_j a[j] omega^(jk).
fn dft(a: &[i64], omega: i64) -> Vec<i64> {
    let n = a.len();
    if n == 1 {
        return vec![modq(a[0])];
    }
    let even: Vec<i64> = a.iter().step_by(2).cloned().collect();
    let odd: Vec<i64> = a.iter().skip(1).step_by(2).cloned().collect();
    let w2 = omega * omega % Q;
    let e = dft(&even, w2);
    let o = dft(&odd, w2);
    let mut out = vec![0i64; n];
    let mut w = 1i64;
    for k in 0..n / 2 {
        let t = w * o[k] % Q;
        out[k] = (e[k] + t) % Q;
        out[k + n / 2] = modq(e[k] - t);
        w = w * omega % Q;
    }
    out
}

/// Fast product in Z_q[X]/(X^n+1) through `evaluate_at_roots`.
pub fn negacyclic_mul_fast(a: &[i64], b: &[i64]) -> Vec<i64> {
    let ea = evaluate_at_roots(a);
    let eb = evaluate_at_roots(b);
    let prod: Vec<i64> = ea.iter().zip(eb.iter()).map(|(x, y)| x * y % Q).collect();
    interpolate_from_roots(&prod)
}

/// Inverse in Z_q[X]/(X^n+1), None when a vanishes at some root.
pub fn ring_inverse(a: &[i64]) -> Option<Vec<i64>> {
    let e = evaluate_at_roots(a);
    if e.iter().any(|&x| x == 0) {
        return None;
    }
    let inv: Vec<i64> = e.iter().map(|&x| invq(x)).collect();
    Some(interpolate_from_roots(&inv))
}

/// a / b in Z_q[X]/(X^n+1), None when b is not invertible.
pub fn ring_div(a: &[i64], b: &[i64]) -> Option<Vec<i64>> {
    let eb = evaluate_at_roots(b);
    if eb.iter().any(|&x| x == 0) {
        return None;
    }
    let ea = evaluate_at_roots(a);
    let quo: Vec<i64> = ea.iter().zip(eb.iter()).map(|(x, y)| x * invq(*y) % Q).collect();
    Some(interpolate_from_roots(&quo))
}

pub fn bitrev(i: usize, bits: u32) -> usize {
    let mut r = 0;
    for b in 0..bits {
        if i & (1 << b) != 0 {
            r |= 1 << (bits - 1 - b);
        }
    }
    r
}

#[cfg(test)]
mod tests {
    use super::*;

    fn lcg(state: &mut u64) -> i64 {
        *state = state.wrapping_mul(6364136223846793005).wrapping_add(1442695040888963407);
        ((*state >> 33) % (Q as u64)) as i64
    }

    #[test]
    fn roots() {
        for logm in 1..=12 {
            let m = 1usize << logm;
            let r = primitive_root(m);
            assert_eq!(order(r), m as u64);
        }
        assert_eq!(order(generator()), (Q - 1) as u64);
    }

    #[test]
    fn fast_matches_schoolbook() {
        let mut st = 12345u64;
        for logn in 0..=10 {
            let n = 1usize << logn;
            let a: Vec<i64> = (0..n).map(|_| lcg(&mut st)).collect();
            let b: Vec<i64> = (0..n).map(|_| lcg(&mut st)).collect();
            assert_eq!(negacyclic_mul(&a, &b), negacyclic_mul_fast(&a, &b), "n={}", n);
            // evaluation agrees with Horner at every root
            let e = evaluate_at_roots(&a);
            let psi = primitive_root(2 * n);
            for k in (0..n).step_by(std::cmp::max(1, n / 16)) {
                assert_eq!(e[k], eval(&a, powq(psi, (2 * k + 1) as u64)));
            }
            assert_eq!(interpolate_from_roots(&e), a);
            if let Some(inv) = ring_inverse(&a) {
                let mut one = vec![0i64; n];
                one[0] = 1;
                assert_eq!(negacyclic_mul(&a, &inv), one);
            }
        }
    }

    #[test]
    fn centred_range() {
        for a in -30000..30000 {
            let c = centred(a);
            assert!((-6144..=6144).contains(&c));
            assert_eq!(modq(c - a), 0);
        }
    }
}
