//! Compress / Decompress, Algorithms 17 and 18 of the specification, on an explicit bit string.
//!
//! Domain: |v_i| < 12160 (unary runs of at most 94 zeros); the decoder rejects longer runs, as
//! the implementation documents (high part capped at 95) and as every value inside the
//! signature norm bound requires far less.

pub const MAX_RUN: usize = 94;

pub fn coefficient_bits(v: i64) -> usize {
    9 + (v.unsigned_abs() >> 7) as usize
}

pub fn total_bits(v: &[i64]) -> usize {
    v.iter().map(|&c| coefficient_bits(c)).sum()
}

/// Algorithm 17. `None` when the encoding does not fit in `byte_len` bytes.
pub fn encode(v: &[i64], byte_len: usize) -> Option<Vec<u8>> {
    let mut bits: Vec<bool> = Vec::with_capacity(byte_len * 8);
    for &c in v {
        assert!(c.abs() < 12160, "outside the codec's domain");
        bits.push(c < 0);
        let m = c.unsigned_abs();
        for j in (0..7).rev() {
            bits.push((m >> j) & 1 == 1);
        }
        for _ in 0..(m >> 7) {
            bits.push(false);
        }
        bits.push(true);
    }
    if bits.len() > 8 * byte_len {
        return None;
    }
    bits.resize(8 * byte_len, false);
    Some(pack(&bits))
}

pub fn pack(bits: &[bool]) -> Vec<u8> {
    assert!(bits.len() % 8 == 0);
    bits.chunks(8)
        .map(|ch| ch.iter().fold(0u8, |acc, &b| (acc << 1) | b as u8))
        .collect()
}

pub fn unpack(bytes: &[u8]) -> Vec<bool> {
    let mut bits = Vec::with_capacity(bytes.len() * 8);
    for &b in bytes {
        for j in (0..8).rev() {
            bits.push((b >> j) & 1 == 1);
        }
    }
    bits
}

#[derive(Clone, Copy, Debug, PartialEq, Eq)]
pub enum Reject {
    Truncated,
    RunTooLong,
    NegativeZero,
    Padding,
}

/// Algorithm 18 with the reason for a rejection and the bit position reached.
pub fn decode_traced(x: &[u8], n: usize) -> Result<Vec<i64>, (Reject, usize)> {
    let bits = unpack(x);
    let mut pos = 0usize;
    let mut out = Vec::with_capacity(n);
    for _ in 0..n {
        if pos + 8 > bits.len() {
            return Err((Reject::Truncated, pos));
        }
        let neg = bits[pos];
        let mut low = 0i64;
        for j in 0..7 {
            low = (low << 1) | bits[pos + 1 + j] as i64;
        }
        pos += 8;
        let mut k = 0usize;
        loop {
            if pos >= bits.len() {
                return Err((Reject::Truncated, pos));
            }
            if bits[pos] {
                pos += 1;
                break;
            }
            pos += 1;
            k += 1;
            if k > MAX_RUN {
                return Err((Reject::RunTooLong, pos));
            }
        }
        let m = ((k as i64) << 7) | low;
        if neg && m == 0 {
            return Err((Reject::NegativeZero, pos));
        }
        out.push(if neg { -m } else { m });
    }
    if bits[pos..].iter().any(|&b| b) {
        return Err((Reject::Padding, pos));
    }
    Ok(out)
}

pub fn decode(x: &[u8], n: usize) -> Option<Vec<i64>> {
    decode_traced(x, n).ok()
}

#[cfg(test)]
mod tests {
    use super::*;

    #[test]
    fn round_trip_small_exhaustive() {
        // every 2-byte string, n = 1: decode then encode reproduces the string
        for s in 0..=0xFFFFu32 {
            let x = [(s >> 8) as u8, s as u8];
            if let Some(v) = decode(&x, 1) {
                assert_eq!(encode(&v, 2).unwrap(), x.to_vec());
            }
        }
        // and every value encodes/decodes
        for v in -12159i64..=12159 {
            let need = (coefficient_bits(v) + 7) / 8;
            let x = encode(&[v], need).unwrap();
            assert_eq!(decode(&x, 1), Some(vec![v]));
            assert!(encode(&[v], need - 1).is_none() || coefficient_bits(v) <= 8 * (need - 1));
        }
    }

    #[test]
    fn rejections() {
        // negative zero: 1 0000000 1
        assert_eq!(decode_traced(&[0x80, 0x80], 1).unwrap_err().0, Reject::NegativeZero);
        // padding bit set
        assert_eq!(decode_traced(&[0x01, 0x81], 1).unwrap_err().0, Reject::Padding);
        // truncated
        assert_eq!(decode_traced(&[0x01], 1).unwrap_err().0, Reject::Truncated);
        assert_eq!(decode_traced(&[0x01, 0x00], 1).unwrap_err().0, Reject::Truncated);
        // run of 95
        let mut bits = vec![false; 8];
        bits.extend(vec![false; 95]);
        bits.push(true);
        bits.resize(112, false);
        assert_eq!(decode_traced(&pack(&bits), 1).unwrap_err().0, Reject::RunTooLong);
    }
}
