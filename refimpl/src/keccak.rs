//! Keccak-f[1600] and the SHAKE-256 extendable output function (FIPS 202).

const RC: [u64; 24] = [
    0x0000000000000001, 0x0000000000008082, 0x800000000000808A, 0x8000000080008000,
    0x000000000000808B, 0x0000000080000001, 0x8000000080008081, 0x8000000000008009,
    0x000000000000008A, 0x0000000000000088, 0x0000000080008009, 0x000000008000000A,
    0x000000008000808B, 0x800000000000008B, 0x8000000000008089, 0x8000000000008003,
    0x8000000000008002, 0x8000000000000080, 0x000000000000800A, 0x800000008000000A,
    0x8000000080008081, 0x8000000000008080, 0x0000000080000001, 0x8000000080008008,
];

/// Rotation offsets r[x][y] of the rho step.
const RHO: [[u32; 5]; 5] = [
    [0, 36, 3, 41, 18],
    [1, 44, 10, 45, 2],
    [62, 6, 43, 15, 61],
    [28, 55, 25, 21, 56],
    [27, 20, 39, 8, 14],
];

/// State is indexed a[x + 5*y].
pub fn keccak_f1600(a: &mut [u64; 25]) {
    for rc in RC.iter() {
        // theta
        let mut c = [0u64; 5];
        for x in 0..5 {
            c[x] = a[x] ^ a[x + 5] ^ a[x + 10] ^ a[x + 15] ^ a[x + 20];
        }
        for x in 0..5 {
            let d = c[(x + 4) % 5] ^ c[(x + 1) % 5].rotate_left(1);
            for y in 0..5 {
                a[x + 5 * y] ^= d;
            }
        }
        // rho and pi: B[y, 2x+3y] = rot(A[x,y], r[x][y])
        let mut b = [0u64; 25];
        for x in 0..5 {
            for y in 0..5 {
                let nx = y;
                let ny = (2 * x + 3 * y) % 5;
                b[nx + 5 * ny] = a[x + 5 * y].rotate_left(RHO[x][y]);
            }
        }
        // chi
        for y in 0..5 {
            for x in 0..5 {
                a[x + 5 * y] = b[x + 5 * y] ^ (!b[(x + 1) % 5 + 5 * y] & b[(x + 2) % 5 + 5 * y]);
            }
        }
        // iota
        a[0] ^= rc;
    }
}

pub struct Shake256 {
    state: [u64; 25],
    buf: [u8; 136],
    pos: usize,
}

const RATE: usize = 136;

impl Shake256 {
    /// Absorb the whole message and switch to squeezing.
    pub fn new(msg: &[u8]) -> Self {
        let mut state = [0u64; 25];
        let mut chunks = msg.chunks_exact(RATE);
        for block in &mut chunks {
            Self::xor_block(&mut state, block);
            keccak_f1600(&mut state);
        }
        let rem = chunks.remainder();
        let mut last = [0u8; RATE];
        last[..rem.len()].copy_from_slice(rem);
        last[rem.len()] ^= 0x1F;
        last[RATE - 1] ^= 0x80;
        Self::xor_block(&mut state, &last);
        keccak_f1600(&mut state);
        let mut s = Shake256 { state, buf: [0u8; RATE], pos: 0 };
        s.fill();
        s
    }

    fn xor_block(state: &mut [u64; 25], block: &[u8]) {
        for i in 0..RATE / 8 {
            let mut w = [0u8; 8];
            w.copy_from_slice(&block[8 * i..8 * i + 8]);
            state[i] ^= u64::from_le_bytes(w);
        }
    }

    fn fill(&mut self) {
        for i in 0..RATE / 8 {
            self.buf[8 * i..8 * i + 8].copy_from_slice(&self.state[i].to_le_bytes());
        }
        self.pos = 0;
    }

    pub fn next_byte(&mut self) -> u8 {
        if self.pos == RATE {
            keccak_f1600(&mut self.state);
            self.fill();
        }
        let b = self.buf[self.pos];
        self.pos += 1;
        b
    }

    pub fn read(&mut self, out: &mut [u8]) {
        for o in out.iter_mut() {
            *o = self.next_byte();
        }
    }
}

pub fn shake256(msg: &[u8], outlen: usize) -> Vec<u8> {
    let mut s = Shake256::new(msg);
    let mut out = vec![0u8; outlen];
    s.read(&mut out);
    out
}

#[cfg(test)]
mod tests {
    use super::*;
    fn hex(b: &[u8]) -> String {
        b.iter().map(|x| format!("{:02x}", x)).collect()
    }
    #[test]
    fn empty_string_vector() {
        // NIST: SHAKE256("") first 32 bytes
        assert_eq!(
            hex(&shake256(b"", 32)),
            "46b9dd2b0ba88d13233b3feb743eeb243fcd52ea62b81b82b50c27646ed5762f"
        );
    }
    #[test]
    fn abc_vector() {
        assert_eq!(
            hex(&shake256(b"abc", 32)),
            "483366601360a8771c6863080cc4114d8db44530f8f1e1ee4f94ea37e78b5739"
        );
    }
}
