//! Exact checks on NTRU bases and a plain Gram-Schmidt orthogonalisation in f64.

use crate::zq::negacyclic_mul_exact;

/// f*G - g*F in Z[X]/(X^n+1), exactly (coefficients must be small enough for i64).
pub fn ntru_lhs(f: &[i64], g: &[i64], cap_f: &[i64], cap_g: &[i64]) -> Vec<i64> {
    let a = negacyclic_mul_exact(f, cap_g);
    let b = negacyclic_mul_exact(g, cap_f);
    a.iter().zip(b.iter()).map(|(x, y)| x - y).collect()
}

pub fn is_ntru(f: &[i64], g: &[i64], cap_f: &[i64], cap_g: &[i64], q: i64) -> bool {
    let lhs = ntru_lhs(f, g, cap_f, cap_g);
    lhs[0] == q && lhs[1..].iter().all(|&x| x == 0)
}

/// Row k of the negacyclic rotation matrix of a: coefficients of a * X^k.
pub fn rotate(a: &[i64], k: usize) -> Vec<i64> {
    let n = a.len();
    let mut out = vec![0i64; n];
    for i in 0..n {
        let j = i + k;
        if j < n {
            out[j] = a[i];
        } else {
            out[j - n] = -a[i];
        }
    }
    out
}

/// The 2n x 2n basis [[rot(g), -rot(f)], [rot(G), -rot(F)]] as rows of length 2n, with the rows of
/// each block in the given order of rotation indices.
pub fn basis_rows(f: &[i64], g: &[i64], cap_f: &[i64], cap_g: &[i64], order: &[usize]) -> Vec<Vec<f64>> {
    let mut rows = Vec::with_capacity(2 * f.len());
    for (a, b) in [(g, f), (cap_g, cap_f)] {
        for &k in order {
            let mut row: Vec<f64> = rotate(a, k).iter().map(|&x| x as f64).collect();
            row.extend(rotate(b, k).iter().map(|&x| -(x as f64)));
            rows.push(row);
        }
    }
    rows
}

/// Modified Gram-Schmidt; returns the orthogonal vectors b~_i (not normalised).
pub fn gram_schmidt(rows: &[Vec<f64>]) -> Vec<Vec<f64>> {
    let m = rows.len();
    let mut out: Vec<Vec<f64>> = Vec::with_capacity(m);
    let mut norms: Vec<f64> = Vec::with_capacity(m);
    for r in rows {
        let mut v = r.clone();
        for (u, &nu) in out.iter().zip(norms.iter()) {
            let c = dot(&v, u) / nu;
            for (x, y) in v.iter_mut().zip(u.iter()) {
                *x -= c * y;
            }
        }
        norms.push(dot(&v, &v));
        out.push(v);
    }
    out
}

/// Dot product with four independent accumulators (lets the compiler vectorise the loop).
pub fn dot(a: &[f64], b: &[f64]) -> f64 {
    let mut acc = [0.0f64; 4];
    let n = a.len().min(b.len());
    let (ca, cb) = (a[..n].chunks_exact(4), b[..n].chunks_exact(4));
    let (ra, rb) = (ca.remainder(), cb.remainder());
    for (x, y) in ca.zip(cb) {
        acc[0] += x[0] * y[0];
        acc[1] += x[1] * y[1];
        acc[2] += x[2] * y[2];
        acc[3] += x[3] * y[3];
    }
    let mut tail = 0.0;
    for (x, y) in ra.iter().zip(rb.iter()) {
        tail += x * y;
    }
    (acc[0] + acc[1]) + (acc[2] + acc[3]) + tail
}

pub fn norm(v: &[f64]) -> f64 {
    v.iter().map(|a| a * a).sum::<f64>().sqrt()
}
