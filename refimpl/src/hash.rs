//! HashToPoint, Algorithm 3 of the specification.

use crate::keccak::Shake256;
use crate::params::Q;

pub const K: u32 = 5; // floor(2^16 / q)

/// Returns the point and the number of 16-bit chunks read from the stream.
pub fn hash_to_point_traced(string: &[u8], n: usize) -> (Vec<i64>, Vec<u16>) {
    let mut xof = Shake256::new(string);
    let mut c = Vec::with_capacity(n);
    let mut chunks = Vec::with_capacity(n + n / 8);
    while c.len() < n {
        let hi = xof.next_byte() as u32;
        let lo = xof.next_byte() as u32;
        let t = (hi << 8) | lo;
        chunks.push(t as u16);
        if t < K * (Q as u32) {
            c.push((t % (Q as u32)) as i64);
        }
    }
    (c, chunks)
}

pub fn hash_to_point(string: &[u8], n: usize) -> Vec<i64> {
    hash_to_point_traced(string, n).0
}
