#!/bin/bash
# Coverage-guided campaign for the thorough tier of C03 / C06 / C07 / C09 (called by ./check).
# exit 0 = no artifact; 1 = VIOLATION printed; 2 = infrastructure problem.
set -u
ID="$1"
VERIF_DIR="$(cd "$(dirname "$0")/.." && pwd)"
cd "$VERIF_DIR/fuzz" || exit 2
case "$ID" in
  C03|C06) TARGET=fuzz_decoders; RUNS=${VERIF_FUZZ_RUNS:-500000}; MAXLEN=2400 ;;
  C07) TARGET=fuzz_codec; RUNS=${VERIF_FUZZ_RUNS:-20000000}; MAXLEN=1300 ;;
  C09) TARGET=fuzz_sampler; RUNS=${VERIF_FUZZ_RUNS:-20000000}; MAXLEN=400 ;;
  *) exit 0 ;;
esac
WORKERS=${VERIF_FUZZ_WORKERS:-8}
SEED=${VERIF_SEED:-0}
export CARGO_NET_OFFLINE=true
if ! cargo +nightly fuzz build -s none "$TARGET" >"$VERIF_DIR/target/fuzz-build-$$.log" 2>&1; then
  echo "campaign: cargo fuzz build failed (infrastructure, not a violation)" >&2
  tail -20 "$VERIF_DIR/target/fuzz-build-$$.log" >&2
  exit 2
fi
rm -f "$VERIF_DIR/target/fuzz-build-$$.log"
BIN="$VERIF_DIR/fuzz/target/x86_64-unknown-linux-gnu/release/$TARGET"
[ -x "$BIN" ] || { echo "campaign: $BIN missing" >&2; exit 2; }
WORK="$VERIF_DIR/fuzz/work/$ID"
rm -rf "$WORK"; mkdir -p "$WORK/seeds" "$WORK/artifacts"
"$VERIF_DIR/target/release/fvh" fuzz-seeds "$TARGET" "$WORK/seeds" >/dev/null || exit 2
START=$(date +%s)
for w in $(seq 1 "$WORKERS"); do
  mkdir -p "$WORK/corpus-$w"
  "$BIN" "$WORK/corpus-$w" "$WORK/seeds" -runs="$RUNS" -seed=$((SEED * 64 + w)) -len_control=0 -max_len=$MAXLEN \
      -artifact_prefix="$WORK/artifacts/w$w-" -print_final_stats=1 >"$WORK/log-$w.txt" 2>&1 &
done
wait
END=$(date +%s)
EXECS=$(grep -h "stat::number_of_executed_units" "$WORK"/log-*.txt | awk '{s+=$2} END {print s+0}')
UNITS=$(ls "$WORK"/corpus-* | wc -l)
COV=$(grep -h "cov:" "$WORK"/log-*.txt | sed -n 's/.*cov: \([0-9]*\).*/\1/p' | sort -n | tail -1)
ARTIFACTS=$(ls "$WORK/artifacts" 2>/dev/null | wc -l)
rc=0
if [ "$ARTIFACTS" -gt 0 ]; then
  mkdir -p "$VERIF_DIR/replays/$ID"
  for a in "$WORK"/artifacts/*; do
    cp "$a" "$VERIF_DIR/replays/$ID/"
  done
  # which property does each artifact speak about?  (same function bodies, stable build)
  "$VERIF_DIR/target/release/fvh" fuzz-triage "$ID" "$VERIF_DIR"/replays/"$ID"/w*-* | while read -r prop path msg; do
    echo "  [$TARGET] $msg"
    echo "VIOLATION property=$prop replay=$path"
  done
  rc=1
fi
python3 - "$VERIF_DIR/evidence/$ID.json" "$TARGET" "$WORKERS" "$RUNS" "${EXECS:-0}" "${UNITS:-0}" "${COV:-0}" "$ARTIFACTS" $((END-START)) <<'PY'
import json, sys
path, target, workers, runs, execs, units, cov, artifacts, secs = sys.argv[1:]
try:
    e = json.load(open(path))
except Exception:
    sys.exit(0)
e["coverage"]["fuzz_campaign"] = {"engine": "libFuzzer (cargo-fuzz, -s none, debug assertions on)", "target": target, "workers": int(workers), "runs_per_worker": int(runs),
    "executions": int(execs), "corpus_units_kept": int(units), "max_coverage_counter": int(cov or 0), "artifacts": int(artifacts), "wall_s": int(secs)}
e["coverage"]["evaluations"] += int(execs)
e["wall_s"] += int(secs)
if int(artifacts) > 0:
    e["violations"] = e.get("violations", 0) + int(artifacts)
json.dump(e, open(path, "w"), indent=2)
PY
echo "$ID campaign: target=$TARGET workers=$WORKERS executions=${EXECS:-0} artifacts=$ARTIFACTS wall=$((END-START))s"
exit $rc
