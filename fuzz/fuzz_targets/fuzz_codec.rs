#![no_main]
use libfuzzer_sys::fuzz_target;
include!("../../harness/src/fuzzbody.rs");
fuzz_target!(|data: &[u8]| {
    fuzzbody::codec(data);
});
