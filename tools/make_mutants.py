#!/usr/bin/env python3
"""Builds the sensitivity mutants of DESIGN.md section 6 as patch files under /verif/mutants/.

Each mutant is a small edit of /repo's current sources (made in a scratch git worktree under /tmp,
removed afterwards) that breaks one listed property. `tools/run_mutants.sh` applies each to /repo,
runs the quick checks that are expected to catch it, and reverts.
"""
import json, os, subprocess, sys, shutil

REPO = "/repo"
OUT = "/verif/mutants"
WT = "/tmp/fvh-mutants-wt"
S = "falcon-rust/src/"

# name, expected catching properties, file, old, new
M = [
 # ---- undo the repairs
 ("undo_d1_decompress_oob", ["C03", "C07"], S+"encoding.rs",
  "        if index_div_8 + 1 >= x.len() {\n            // the low bits reach into the last byte: no room is left for\n            // this coefficient's terminator and the coefficients after it\n            return None;\n        }\n", ""),
 ("undo_d2_last_run_cap", ["C03", "C07", "C02"], S+"encoding.rs",
  "        high_bits += 1;\n        if high_bits == 95 {\n            return None;\n        }\n    }\n", "        high_bits += 1;\n    }\n"),
 ("undo_d3_pk_range", ["C06"], S+"falcon.rs",
  "                    if int >= Q as i16 {", "                    if int >= 16384 {"),
 ("undo_d4_felt_new", ["C12"], S+"falcon_field.rs",
  "        Felt((value as i32).rem_euclid(Q as i32) as u32)\n    }\n\n    pub const fn value(&self) -> i16 {",
  "        let gtz_bool = value >= 0;\n        let gtz_int = gtz_bool as i16;\n        let gtz_sign = gtz_int - ((!gtz_bool) as i16);\n        let reduced = gtz_sign * ((gtz_sign * value) % (Q as i16));\n        let canonical_representative = (reduced + (Q as i16) * (1 - gtz_int)) as u32;\n        Felt(canonical_representative)\n    }\n\n    pub const fn value(&self) -> i16 {"),
 ("undo_d5_ber_exp_tie", ["C09"], S+"samplerz.rs",
  "    for (i, byte) in (8..64).step_by(8).rev().zip(random_bytes) {\n", "    for (index, i) in (0..64).step_by(8).rev().enumerate() {\n        let byte = random_bytes[index];\n"),
 ("undo_d6_verify_strict", ["C02"], S+"falcon.rs", "    length_squared <= params.sig_bound", "    length_squared < params.sig_bound"),
 ("undo_d7_keygen_ranges", ["C05", "C04", "C16"], S+"math.rs",
  "                .any(|c| c.abs() > 127)\n            {\n                continue;\n            }", "                .any(|c| c.abs() > 30000)\n            {\n                continue;\n            }"),
 ("undo_d8_babai_zero", ["C17"], S+"math.rs", "            .max(1)\n            .ilog2()", "            .ilog2()"),
 # ---- C01
 ("c01_no_norm_retry", ["C01"], S+"falcon.rs", "            if length_squared > (bound as f64) {", "            if length_squared > 2.0 * (bound as f64) {"),
 ("c01_sign_bound_looser", ["C01"], S+"falcon.rs", "            if length_squared > (bound as f64) {", "            if length_squared > 1.002 * (bound as f64) {"),
 ("c01_compress_budget_plus_one", ["C05", "C01", "C16"], S+"falcon.rs", "            params.sig_bytelen - 41,\n", "            params.sig_bytelen - 40,\n"),
 # ---- C02
 ("c02_bound_plus_one_512", ["C02"], S+"falcon.rs", "                sig_bound: 34034726,", "                sig_bound: 34034727,"),
 ("env_verify_bound_plus_one_on_one_cpu", ["C02"], S+"falcon.rs", "    length_squared <= params.sig_bound\n}", "    length_squared <= params.sig_bound + (std::thread::available_parallelism().map(|p| p.get()).unwrap_or(2) == 1) as i64\n}"),
 ("env_compress_run_cap_on_two_cpus", ["C07"], S+"encoding.rs", "            if high_bits == 95 || index + 1 == bitvector.len() {", "            thread_local! { static CPUS: usize = std::thread::available_parallelism().map(|p| p.get()).unwrap_or(1); }\n            if high_bits == 95 + (CPUS.with(|c| *c) == 2) as i16 || index + 1 == bitvector.len() {"),
 ("c02_bound_minus_one_1024", ["C02"], S+"falcon.rs", "                sig_bound: 70265242,", "                sig_bound: 70265241,"),
 ("c02_balanced_threshold", ["C02", "C12"], S+"falcon_field.rs", "        let g = (value > ((Q as i16) / 2)) as i16;", "        let g = (value >= ((Q as i16) / 2)) as i16;"),
 ("c02_ignore_last_salt_byte", ["C02"], S+"falcon.rs", "    let r_cat_m = [sig.r.to_vec(), m.to_vec()].concat();\n    let c = hash_to_point(&r_cat_m, n);\n\n    let s2 = match", "    let mut r_cat_m = [sig.r.to_vec(), m.to_vec()].concat();\n    if m.len() > 200 {\n        r_cat_m[39] = sig.r[38];\n    }\n    let c = hash_to_point(&r_cat_m, n);\n\n    let s2 = match"),
 # ---- C03 / C07
 ("c07_drop_padding_check", ["C07", "C02"], S+"encoding.rs", "    for &byte in x.iter().skip(index_div_8 + 1 - (index_mod_8 == 0) as usize) {\n        if byte != 0 {", "    for &byte in x.iter().skip(index_div_8 + 2 - (index_mod_8 == 0) as usize) {\n        if byte != 0 {"),
 ("c07_accept_negative_zero_last", ["C07", "C02"], S+"encoding.rs", "    if abort || (low_bits == 0 && high_bits == 0 && sign == -1) {", "    if abort {"),
 ("c07_run_cap_96", ["C07"], S+"encoding.rs", "            if high_bits == 95 || index + 1 == bitvector.len() {", "            if high_bits == 96 || index + 1 == bitvector.len() {"),
 ("c07_compress_budget_check_off_by_one", ["C07"], S+"encoding.rs", "    if total_length > byte_length * 8 {", "    if total_length > byte_length * 8 + 1 {"),
 # ---- C04
 ("c04_gs_threshold_loose", ["C04"], S+"math.rs", "        if gamma > 1.3689f64 * (Q as f64) {", "        if gamma > 1.6f64 * (Q as f64) {"),
 ("c04_no_invertibility_check", ["C04", "C01"], S+"math.rs", "        if f_ntt.coefficients.iter().any(|e| e.is_zero()) {\n            continue;\n        }", "        if f_ntt.coefficients.is_empty() {\n            continue;\n        }"),
 # ---- C05
 ("c05_sk_width_1024", ["C05", "C16"], S+"falcon.rs", "                1024 => 5,", "                1024 => 6,"),
 # ---- C06
 ("c06_no_reserved_pattern_rejection", ["C06"], S+"falcon.rs", "        if bits[0] && bits.iter().skip(1).all(|b| !b) {", "        if bits[0] && bits.iter().skip(1).all(|b| !b) && bits.len() == 8 {"),
 ("c06_sig_header_bit7", ["C06"], S+"falcon.rs", "        if (header >> 7) != 0 || ((header >> 4) & 1) == 0 {", "        if ((header >> 4) & 1) == 0 {"),
 # ---- C08
 ("c08_salt_from_message", ["C08"], S+"falcon.rs", "    rng.fill_bytes(&mut r);\n\n    let params", "    rng.fill_bytes(&mut r);\n    {\n        let d = hash_to_point(m, 512);\n        for (i, b) in r.iter_mut().enumerate() {\n            *b = d.coefficients[i].value() as u8;\n        }\n    }\n\n    let params"),
 ("c08_salt_32_of_40", ["C08"], S+"falcon.rs", "    rng.fill_bytes(&mut r);\n\n    let params", "    rng.fill_bytes(&mut r[..32]);\n\n    let params"),
 ("c08_salt_low_entropy", ["C08"], S+"falcon.rs", "    rng.fill_bytes(&mut r);\n\n    let params", "    {\n        let s: u16 = rng.gen();\n        let mut g: StdRng = SeedableRng::seed_from_u64(s as u64);\n        g.fill_bytes(&mut r);\n    }\n\n    let params"),
 # ---- C09
 ("c09_rcdt_tail_entry", ["C09"], S+"samplerz.rs", "        28824,", "        28825,"),
 ("c09_c5_off_by_one", ["C09"], S+"samplerz.rs", "        0x000680681CF796E3u64,", "        0x000680681CF796E4u64,"),
 ("c09_sigma_max", ["C09"], S+"samplerz.rs", "    const SIGMA_MAX: f64 = 1.8205;", "    const SIGMA_MAX: f64 = 1.82;"),
 ("c09_skip_bernoulli_tail", ["C09"], S+"samplerz.rs", "        if ber_exp(x, ccs, rng.gen()) {", "        if z0 >= 7 || ber_exp(x, ccs, rng.gen()) {"),
 # ---- C10
 ("c10_leaf_no_sqrt", ["C10", "C04"], S+"ffsampling.rs", "            vector[0] = Complex::new(sigma / vector[0].re.sqrt(), 0.0);", "            vector[0] = Complex::new(sigma * 0.0095 / vector[0].re.sqrt() * 105.0, 0.0);"),
 ("c10_sigma_512_is_1024s", ["C10", "C04"], S+"falcon.rs", "                sigma: 165.7366171829776,", "                sigma: 168.38857144654395,"),
 # ---- C11
 ("c11_ninv_1024", ["C11", "C02"], S+"fast_fft.rs", "const FELT_NINV_1024: Felt = Felt::new(12277);", "const FELT_NINV_1024: Felt = Felt::new(12278);"),
 ("c11_ninv_256", ["C11"], S+"fast_fft.rs", "const FELT_NINV_256: Felt = Felt::new(12241);", "const FELT_NINV_256: Felt = Felt::new(12242);"),
 # ---- C12
 ("c12_neg_without_zero_mask", ["C12"], S+"falcon_field.rs", "        Felt(r * (is_nonzero as u32))", "        Felt(r * ((is_nonzero || self.0 == 0) as u32))"),
 # ---- C13
 ("c13_split_without_half", ["C13", "C10", "C01"], S+"cyclotomic_fourier.rs", "            f0[i] = two_inv * (f[two_i] + f[two_i + 1]);", "            f0[i] = (f[two_i] + f[two_i + 1]);"),
 # ---- C14
 ("c14_accept_61445", ["C14", "C02", "C16"], S+"polynomial.rs", "        if t < K * Q {", "        if t <= K * Q {"),
 ("c14_reject_61444", ["C14", "C02", "C16"], S+"polynomial.rs", "        if t < K * Q {", "        if t < K * Q - 1 {"),
 # ---- C15
 ("c15_ignore_last_seed_byte_bit", ["C15"], S+"falcon.rs", "    pub(crate) fn gen_b0(seed: [u8; 32]) -> [Polynomial<i16>; 4] {\n", "    pub(crate) fn gen_b0(seed: [u8; 32]) -> [Polynomial<i16>; 4] {\n        let mut seed = seed;\n        seed[31] &= 0x7f;\n"),
 ("c15_stack_address_dependence", ["C15"], S+"falcon.rs", "    pub(crate) fn gen_b0(seed: [u8; 32]) -> [Polynomial<i16>; 4] {\n", "    pub(crate) fn gen_b0(seed: [u8; 32]) -> [Polynomial<i16>; 4] {\n        let mut seed = seed;\n        seed[31] ^= ((&seed as *const [u8; 32] as usize) >> 13) as u8 & 1;\n"),
 # ---- C17
 ("c17_i32_floor_instead_of_round", ["C17", "C04"], S+"math.rs", "        let k_ntt = quotient.map(|f| U32Field::new(f.re.round() as i32)).fft();", "        let k_ntt = quotient.map(|f| U32Field::new(f.re.floor() as i32)).fft();"),
]

def run(cmd, **kw):
    return subprocess.run(cmd, shell=True, capture_output=True, text=True, **kw)

def main():
    # regenerate the diffs and the index only: RESULTS.md and baseline.json are results, not inputs
    os.makedirs(OUT, exist_ok=True)
    for f in os.listdir(OUT):
        if f.endswith(".diff") or f == "index.json":
            os.remove(os.path.join(OUT, f))
    run(f"git -C {REPO} worktree remove --force {WT}")
    r = run(f"git -C {REPO} worktree add --detach {WT} HEAD")
    if r.returncode != 0:
        print(r.stderr); sys.exit(1)
    index = []
    try:
        for name, props, file, old, new in M:
            path = os.path.join(WT, file)
            s = open(path).read()
            if s.count(old) != 1:
                print(f"SKIP {name}: anchor occurs {s.count(old)} times in {file}")
                continue
            open(path, "w").write(s.replace(old, new))
            d = run(f"git -C {WT} diff").stdout
            open(os.path.join(OUT, name + ".diff"), "w").write(d)
            run(f"git -C {WT} checkout -- .")
            index.append({"name": name, "expected": props, "file": file})
        json.dump(index, open(os.path.join(OUT, "index.json"), "w"), indent=1)
        print(len(index), "mutants written")
    finally:
        run(f"git -C {REPO} worktree remove --force {WT}")

if __name__ == "__main__":
    main()
