#!/usr/bin/env python3
"""Prepare a round of independent seeded changes: for every property a scratch git worktree of
/repo under <dir>/<ID> containing PROPERTY.txt (the property's text plus one-paragraph summaries
of the changes already taken for it, so that a new one must differ) and <dir>/INSTRUCTIONS.txt.
Nothing from /verif other than those summaries is handed over.
    tools/seed_round.py /tmp/seed6 [C01 C02 ...]
"""
import glob, json, os, re, subprocess, sys

root = sys.argv[1]
ids = sys.argv[2:] or ["C%02d" % i for i in range(1, 18)]
os.makedirs(root, exist_ok=True)
props = {json.loads(l)["id"]: json.loads(l) for l in open("/verif/properties.jsonl")}
instr = open("/verif/tools/seed_instructions.txt").read().replace("/tmp/seed5", root)
open(os.path.join(root, "INSTRUCTIONS.txt"), "w").write(instr)
subprocess.run("git -C /repo worktree prune", shell=True)
for pid in ids:
    wt = os.path.join(root, pid)
    if not os.path.exists(wt):
        r = subprocess.run(f"git -C /repo worktree add --detach {wt} HEAD", shell=True, capture_output=True, text=True)
        if r.returncode != 0:
            print(r.stderr)
            sys.exit(1)
        subprocess.run(f"cp /repo/Cargo.lock {wt}/Cargo.lock", shell=True)
    p = props[pid]
    taken = []
    for d in sorted(glob.glob("/verif/seeded/*")):
        try:
            m = json.load(open(d + "/meta.json"))
        except Exception:
            continue
        if m.get("property") != pid:
            continue
        s = (m.get("agent_summary") or m.get("summary") or "").strip()
        need = (m.get("needs_to_manifest") or "").strip()
        taken.append((s[:700], need[:300]))
    text = [f"PROPERTY {pid}: {p['title']}", "", p["statement"], "", "Formally: " + p["quantifier"]["text"], "",
            "Code the property is anchored in: " + ", ".join(p["anchors"]["files"]), ""]
    if taken:
        text += ["CHANGES ALREADY TAKEN for this property (yours must be clearly different from all of them: another",
                 "mechanism, another code site or another kind of trigger):", ""]
        for i, (s, need) in enumerate(taken, 1):
            text += [f"({i}) {s}", f"    needs: {need}", ""]
    open(os.path.join(wt, "PROPERTY.txt"), "w").write("\n".join(text) + "\n")
    print(pid, "worktree", wt, "taken", len(taken))
