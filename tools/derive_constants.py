#!/usr/bin/env python3
"""Independent derivation of the constants the reference models rely on (run by setup.sh).

* RCDT (specification table 3.1): RCDT[i] = sum_{j>i} floor(2^72 * rho(j) / sum_k rho(k)), rho = half-Gaussian
  weights rho(k) = exp(-k^2 / 2 sigma_max^2), sigma_max = 1.8205 -- must reproduce refimpl/src/sampler.rs literally.
* sigma, sigma_min, floor(beta^2) for both variants from the formulas of section 2.6.
"""
import re, sys, os
from mpmath import mp, mpf, exp, floor, sqrt, log, pi

mp.prec = 400
HERE = os.path.dirname(os.path.dirname(os.path.abspath(__file__)))

def rcdt():
    sigma = mpf("1.8205")
    rho = [exp(-mpf(k) ** 2 / (2 * sigma ** 2)) for k in range(0, 40)]
    total = sum(rho)
    pdt = [int(floor(mpf(2) ** 72 * r / total)) for r in rho]
    # probabilities must sum to 2^72 exactly: the specification puts the rounding slack into p(0)
    out = []
    for i in range(18):
        out.append(sum(pdt[i + 1:]))
    return out

def params(n, lam):
    q = 12289
    eps = 1 / sqrt(mpf(2) ** 64 * lam)
    smooth = (1 / pi) * sqrt(log(4 * n * (1 + 1 / eps)) / 2)
    sigma = smooth * mpf("1.17") * sqrt(q)
    sigmin = smooth
    beta2 = (mpf("1.1") * sigma * sqrt(2 * n)) ** 2
    return sigma, sigmin, int(floor(beta2))

def main():
    src = open(os.path.join(HERE, "refimpl/src/sampler.rs")).read()
    body = src[src.index("pub const RCDT"):]
    body = body[body.index("= [") + 3: body.index("];")]
    literal = [int(x) for x in re.findall(r"\d+", body)]
    derived = rcdt()
    if literal != derived:
        print("RCDT mismatch:\n literal", literal, "\n derived", derived)
        sys.exit(1)
    s512 = params(512, 128)
    s1024 = params(1024, 256)
    ok = (abs(s512[0] - mpf("165.7366171829776")) < mpf("1e-12") and abs(s512[1] - mpf("1.2778336969128337")) < mpf("1e-14") and s512[2] == 34034726
          and abs(s1024[0] - mpf("168.38857144654395")) < mpf("1e-12") and abs(s1024[1] - mpf("1.298280334344292")) < mpf("1e-14") and s1024[2] == 70265242)
    if not ok:
        print("parameter mismatch", s512, s1024)
        sys.exit(1)
    print("derive_constants: RCDT (18 entries), sigma, sigma_min, floor(beta^2) reproduced")

if __name__ == "__main__":
    main()
