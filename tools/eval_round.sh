#!/bin/bash
# Evaluate one finished seeded change of a round in its own scratch area (so that several can run
# side by side):   tools/eval_round.sh <round-dir> <ID> <name> [checks]
#   e.g. tools/eval_round.sh /tmp/seed12 C07 r12_C07_some_slug C07,C02
# The scratch area /tmp/fvh-seed-<ID> (worktree of /repo + copy of /verif with its build) is removed
# afterwards.
set -u
root=$1; id=$2; name=$3; checks=${4:-$id}
export SEED_SCRATCH=/tmp/fvh-seed-$id
cd /verif
python3 tools/seeded_eval.py "$name" "$root/$id/seeded" --checks "$checks" > "$root/$id.eval.log" 2>&1
git -C /repo worktree remove --force "$SEED_SCRATCH/repo" >/dev/null 2>&1
rm -rf "$SEED_SCRATCH"
git -C /repo worktree prune
tail -25 "$root/$id.eval.log"
