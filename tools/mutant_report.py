#!/usr/bin/env python3
"""Turns the runner's results.jsonl into mutants/RESULTS.md (one row per mutant, latest result wins)."""
import json, sys
src = sys.argv[1] if len(sys.argv) > 1 else "/verif/mutants/results.jsonl"
idx = {m["name"]: m for m in json.load(open("/verif/mutants/index.json"))}
rows = {}
for l in open(src):
    try:
        r = json.loads(l)
    except Exception:
        continue
    old = rows.get(r["mutant"])
    if old:
        # several runs (a full matrix, later re-runs of the expected checks): a check counts as
        # catching the mutant if it did so in the latest run that included it
        caught = set(old.get("caught", "").split())
        missed = set(old.get("missed", "").split())
        broken = {b.split("(")[0]: b for b in old.get("broken", "").split()}
        for c in r.get("caught", "").split():
            caught.add(c); missed.discard(c); broken.pop(c, None)
        for c in r.get("missed", "").split():
            missed.add(c); caught.discard(c); broken.pop(c, None)
        for b in r.get("broken", "").split():
            k = b.split("(")[0]
            broken[k] = b; caught.discard(k); missed.discard(k)
        r = dict(r, caught=" ".join(sorted(caught)), missed=" ".join(sorted(missed)), broken=" ".join(sorted(broken.values())))
        if r.get("baseline") in ("skipped", None):
            r["baseline"] = old.get("baseline", "skipped")
    rows[r["mutant"]] = r
out = ["# Sensitivity mutants: which quick checks catch which deliberate breakage", "",
       "Produced by `tools/run_mutants.sh` (scratch worktree of /repo + scratch copy of /verif) and `tools/mutant_report.py`.",
       "`baseline` = result of the repository's own 60-test suite with the mutant applied.", "",
       "| mutant | file | baseline suite | expected | caught by | not caught by |", "|---|---|---|---|---|---|"]
for name, r in rows.items():
    m = idx.get(name, {})
    base = r.get("baseline", "?")
    if base in ("skipped", "?"):
        try:
            base = json.load(open("/verif/mutants/baseline.json")).get(name, "not run")
        except Exception:
            pass
    if base.startswith("fail:"):
        base = "FAILS (" + base[5:].strip(",") + ")" if base[5:].strip(",") else "hangs / times out"
    out.append(f"| {name} | {m.get('file','?').split('/')[-1]} | {base} | {' '.join(m.get('expected', []))} | {r.get('caught','')} | {r.get('missed','')} {r.get('broken','')} |")
missing = [n for n in idx if n not in rows]
if missing:
    out += ["", "Not run yet: " + ", ".join(missing)]
open("/verif/mutants/RESULTS.md", "w").write("\n".join(out) + "\n")
print(len(rows), "rows;", len(missing), "not run")
