#!/usr/bin/env python3
"""Turns the runner's results.jsonl into mutants/RESULTS.md (one row per mutant, latest result wins)."""
import json, sys
src = sys.argv[1] if len(sys.argv) > 1 else "/tmp/fvh-mut/results.jsonl"
idx = {m["name"]: m for m in json.load(open("/verif/mutants/index.json"))}
rows = {}
for l in open(src):
    try:
        r = json.loads(l)
    except Exception:
        continue
    rows[r["mutant"]] = r
out = ["# Sensitivity mutants: which quick checks catch which deliberate breakage", "",
       "Produced by `tools/run_mutants.sh` (scratch worktree of /repo + scratch copy of /verif) and `tools/mutant_report.py`.",
       "`baseline` = result of the repository's own 60-test suite with the mutant applied.", "",
       "| mutant | file | baseline suite | expected | caught by | not caught by |", "|---|---|---|---|---|---|"]
for name, r in rows.items():
    m = idx.get(name, {})
    base = r.get("baseline", "?")
    if base in ("skipped", "?"):
        try:
            base = json.load(open("/verif/mutants/baseline.json")).get(name, "not run")
        except Exception:
            pass
    if base.startswith("fail:"):
        base = "FAILS (" + base[5:].strip(",") + ")" if base[5:].strip(",") else "hangs / times out"
    out.append(f"| {name} | {m.get('file','?').split('/')[-1]} | {base} | {' '.join(m.get('expected', []))} | {r.get('caught','')} | {r.get('missed','')} {r.get('broken','')} |")
missing = [n for n in idx if n not in rows]
if missing:
    out += ["", "Not run yet: " + ", ".join(missing)]
open("/verif/mutants/RESULTS.md", "w").write("\n".join(out) + "\n")
print(len(rows), "rows;", len(missing), "not run")
