#!/usr/bin/env python3
"""Regenerates /verif/MANIFEST.json from the table below and validates it against the schema."""
import json, os, subprocess, sys

HERE = os.path.dirname(os.path.dirname(os.path.abspath(__file__)))
REPO_HOOK_COMMITS = subprocess.run(["git", "-C", "/repo", "log", "--format=%h %s"], capture_output=True, text=True).stdout.splitlines()
hook_commits = [l.split()[0] for l in REPO_HOOK_COMMITS if l.split(" ", 1)[1].startswith("verif-hooks")]

# id -> (technique, level text, level note, design section)
CHECKS = {
    "C07": (
        "differential against a bit-level reference codec (proptest, grammar-built strings) + complete enumeration of short strings",
        "compress and decompress are compared with an independent bit-string transcription of Algorithms 17/18 in both directions: generated vectors at the edge of the byte budget, grammar-built strings steered to the end of the buffer at the production sizes, and every string of length <= 3 bytes (quick) / 4 bytes (thorough). Complete only on the enumerated short strings; sampled elsewhere.",
        "Trusted: refimpl::codec (self-tested round trip, rejects runs >= 95 as the codec's documented domain requires); the compress/decompress hook wrappers.",
        "3/C07",
    ),
    "C12": (
        "exhaustive enumeration against an i64 reference + proptest for batch inversion",
        "Every element operation is compared with i64/rem_euclid arithmetic on its complete finite domain (all q^2 operand pairs, all q residues, all 65536 i16 inputs), so for those operations the result is a complete decision on this build; batch inversion is sampled with generated vectors.",
        "Trusted: Rust i64 arithmetic; the cfg-guarded wrappers in falcon_field.rs (they wrap canonical residues without reducing).",
        "3/C12",
    ),
}

NOT_YET = {}

ALL = ["C%02d" % i for i in range(1, 18)]


def main():
    checks = []
    for pid in ALL:
        if pid not in CHECKS:
            continue
        tech, text, note, ref = CHECKS[pid]
        checks.append({
            "property_id": pid,
            "quick_cmd": "./check %s quick" % pid,
            "thorough_cmd": "./check %s thorough" % pid,
            "evidence_file": "/verif/evidence/%s.json" % pid,
            "replay_cmd_template": "./check %s --replay {path}" % pid,
            "engine": "fvh",
            "level_claimed": {"category": "exploration", "text": text, "design_ref": "DESIGN.md section " + ref},
            "level_note": note,
            "technique": tech,
        })
    na = [{"property_id": p, "reason": NOT_YET.get(p, "check not built yet (work in progress; see DESIGN.md section 11 for the order)")} for p in ALL if p not in CHECKS]
    manifest = {
        "version": 1,
        "setup_cmd": "./setup.sh",
        "hooks": {
            "guard": "cargo feature `verif-hooks` of the falcon-rust crate (off by default)",
            "enable": "the harness depends on falcon-rust by path with features = [\"verif-hooks\"] (harness/Cargo.toml, fuzz/Cargo.toml)",
            "baseline_off_cmd": "cd /repo && cargo test --workspace --no-fail-fast --offline",
            "source_commits": hook_commits,
            "add_only": True,
        },
        "engines": [
            {"name": "fvh", "path": "/verif/harness", "serves_properties": sorted(CHECKS), "kind_free_text": "Rust binary: proptest generators and shrinking on a 16-worker pool, complete enumerations of finite domains, corpus replay tier, independent reference models in /verif/refimpl, PQClean as differential reference"},
        ],
        "checks": checks,
        "not_applicable": na,
        "notes": "All checks run through ./check, which rebuilds the harness against /repo's working tree (path dependency, feature verif-hooks) before running. VERIF_SEED seeds every generator. Exit 2 = infrastructure problem (build failure, watchdog), never a violation. Genuine defects found and repaired are listed in KNOWN_FINDINGS.txt.",
    }
    path = os.path.join(HERE, "MANIFEST.json")
    with open(path, "w") as f:
        json.dump(manifest, f, indent=1)
        f.write("\n")
    try:
        import jsonschema
        schema = json.load(open("/root/.vp/MANIFEST.schema.json"))
        jsonschema.validate(manifest, schema)
        print("MANIFEST.json written and valid:", len(checks), "checks,", len(na), "not applicable")
    except ImportError:
        print("MANIFEST.json written (jsonschema not importable here; run with python3-vt to validate)")


if __name__ == "__main__":
    main()
