#!/bin/bash
# Sensitivity experiment: apply each mutant of /verif/mutants to a scratch copy of /repo, run the
# baseline test suite (does the mutant survive it?) and the quick checks expected to catch it
# (does the machinery see it?). Works entirely under $SCRATCH; /repo and /verif are not touched.
#   tools/run_mutants.sh [--dir <mutants dir>] [--all-checks] [--no-baseline] [name ...]
set -u
SCRATCH=${SCRATCH:-/tmp/fvh-mut}
MDIR=/verif/mutants
ALL=0
BASE=1
NAMES=()
while [ $# -gt 0 ]; do
  case "$1" in
    --dir) MDIR="$2"; shift 2 ;;
    --all-checks) ALL=1; shift ;;
    --no-baseline) BASE=0; shift ;;
    *) NAMES+=("$1"); shift ;;
  esac
done
mkdir -p "$SCRATCH"
if [ ! -d "$SCRATCH/repo/.git" ] && [ ! -f "$SCRATCH/repo/.git" ]; then
  git -C /repo worktree prune
  git -C /repo worktree add --detach "$SCRATCH/repo" HEAD >/dev/null 2>&1 || { echo "cannot create worktree"; exit 2; }
else
  git -C "$SCRATCH/repo" checkout -q --detach "$(git -C /repo rev-parse HEAD)" 2>/dev/null
  git -C "$SCRATCH/repo" checkout -q -- .
fi
cp /repo/Cargo.lock "$SCRATCH/repo/Cargo.lock" 2>/dev/null
mkdir -p "$SCRATCH/verif"
rsync -a --delete --exclude target --exclude 'fuzz/target' --exclude 'fuzz/work' --exclude replays --exclude .git /verif/ "$SCRATCH/verif/"
sed -i "s#/repo/falcon-rust#$SCRATCH/repo/falcon-rust#" "$SCRATCH/verif/harness/Cargo.toml" "$SCRATCH/verif/fuzz/Cargo.toml"
RESULTS="$SCRATCH/results.jsonl"
[ ${#NAMES[@]} -eq 0 ] && NAMES=($(python3 -c "import json;print(' '.join(m['name'] for m in json.load(open('$MDIR/index.json'))))"))
for name in "${NAMES[@]}"; do
  patch="$MDIR/$name.diff"
  [ -f "$patch" ] || { echo "no such mutant $name"; continue; }
  expected=$(python3 -c "import json;print(' '.join(next(m['expected'] for m in json.load(open('$MDIR/index.json')) if m['name']=='$name')))" 2>/dev/null)
  [ $ALL -eq 1 ] && expected="C01 C02 C03 C04 C05 C06 C07 C08 C09 C10 C11 C12 C13 C14 C15 C16 C17"
  git -C "$SCRATCH/repo" checkout -q -- .
  if ! git -C "$SCRATCH/repo" apply "$patch"; then echo "{\"mutant\":\"$name\",\"error\":\"patch does not apply\"}" >> "$RESULTS"; continue; fi
  baseline="skipped"
  if [ $BASE -eq 1 ]; then
    if (cd "$SCRATCH/repo" && CARGO_NET_OFFLINE=true timeout 1200 cargo test --workspace --no-fail-fast --offline >"$SCRATCH/baseline-$name.log" 2>&1); then baseline="pass"; else
      if grep -q "could not compile" "$SCRATCH/baseline-$name.log"; then baseline="does-not-compile"; else baseline="fail:$(grep -E '^test .* FAILED' "$SCRATCH/baseline-$name.log" | awk '{print $2}' | tr '\n' ',' )"; fi
    fi
  fi
  caught=""; missed=""; broken=""
  for id in $expected; do
    out=$(cd "$SCRATCH/verif" && VERIF_SEED=${VERIF_SEED:-0} ./check "$id" quick 2>&1); rc=$?
    if [ $rc -eq 1 ] && echo "$out" | grep -q "^VIOLATION property="; then caught="$caught $id"; 
    elif [ $rc -eq 0 ]; then missed="$missed $id"; else broken="$broken $id($rc)"; fi
    echo "$out" | grep -E "VIOLATION|^  \[" | head -3 | sed "s/^/    [$name $id] /"
  done
  echo "{\"mutant\":\"$name\",\"baseline\":\"$baseline\",\"caught\":\"${caught# }\",\"missed\":\"${missed# }\",\"broken\":\"${broken# }\"}" | tee -a "$RESULTS"
  rm -rf "$SCRATCH/verif/replays"
done
git -C "$SCRATCH/repo" checkout -q -- .
