#!/usr/bin/env python3
"""Re-run the quick check of its own property against stored seeded changes (scratch worktree
/tmp/fvh-seed, as tools/seeded_eval.py does) and print caught / missed. Used after generator
changes to make sure nothing that was caught has been lost.
    tools/recheck_seeded.py <name> [<name> ...]        (names of directories under seeded/)
"""
import json, subprocess, sys

repo, verif = "/tmp/fvh-seed/repo", "/tmp/fvh-seed/verif"


def sh(c):
    return subprocess.run(c, shell=True, capture_output=True, text=True)


head = sh("git -C /repo rev-parse HEAD").stdout.strip()
sh("mkdir -p /tmp/fvh-seed; git -C /repo worktree prune")
if sh(f"test -e {repo}/.git").returncode != 0:
    sh(f"git -C /repo worktree add --detach {repo} HEAD")
sh(f"rsync -a --delete --exclude target --exclude 'fuzz/target' --exclude 'fuzz/work' --exclude replays --exclude .git /verif/ {verif}/")
sh(f"sed -i 's#/repo/falcon-rust#{repo}/falcon-rust#' {verif}/harness/Cargo.toml {verif}/fuzz/Cargo.toml")
for name in sys.argv[1:]:
    meta = json.load(open(f"/verif/seeded/{name}/meta.json"))
    prop = meta["property"]
    sh(f"git -C {repo} checkout -q --detach {head}; git -C {repo} checkout -q -- .; git -C {repo} clean -fdq -e target -e Cargo.lock")
    if sh(f"git -C {repo} apply /verif/seeded/{name}/patch.diff").returncode != 0:
        print(name, prop, "patch does not apply", flush=True)
        continue
    r = sh(f"cd {verif} && ./check {prop} quick")
    verdict = "CAUGHT" if f"VIOLATION property={prop}" in r.stdout else ("exit-2" if r.returncode == 2 else "missed")
    print(name, prop, verdict, flush=True)
    sh(f"git -C {repo} checkout -q -- .")
