#!/usr/bin/env python3
"""Confirms a seeded change (from an independent sub-agent) and runs the checks against it.

  tools/seeded_eval.py <name> <dir with patch.diff, demo/, meta.json> [--checks all|C01,C02]

Everything happens in scratch copies under /tmp/fvh-seed (a git worktree of /repo and a copy of
/verif whose harness points at that worktree); /repo and /verif's build are not touched. The result
is written to /verif/seeded/<name>/{patch.diff, demo/, meta.json}.
"""
import json, os, re, shutil, subprocess, sys, time

SCRATCH = os.environ.get("SEED_SCRATCH", "/tmp/fvh-seed")
ALL = ["C%02d" % i for i in range(1, 18)]

def sh(cmd, cwd=None, timeout=3600):
    env = dict(os.environ, CARGO_NET_OFFLINE="true")
    p = subprocess.run(cmd, shell=True, cwd=cwd, capture_output=True, text=True, timeout=timeout, env=env)
    return p.returncode, p.stdout + p.stderr

def main():
    name, src = sys.argv[1], sys.argv[2]
    checks = None
    if "--checks" in sys.argv:
        v = sys.argv[sys.argv.index("--checks") + 1]
        checks = ALL if v == "all" else v.split(",")
    dest = f"/verif/seeded/{name}"
    os.makedirs(dest, exist_ok=True)
    shutil.copy(os.path.join(src, "patch.diff"), os.path.join(dest, "patch.diff"))
    if os.path.isdir(os.path.join(dest, "demo")):
        shutil.rmtree(os.path.join(dest, "demo"))
    shutil.copytree(os.path.join(src, "demo"), os.path.join(dest, "demo"))
    agent_meta = json.load(open(os.path.join(src, "meta.json")))
    prop = agent_meta.get("property", name[:3])
    if checks is None:
        checks = [prop]

    repo = f"{SCRATCH}/repo"
    os.makedirs(SCRATCH, exist_ok=True)
    if not os.path.exists(repo):
        sh("git -C /repo worktree prune")
        rc, out = sh(f"git -C /repo worktree add --detach {repo} HEAD")
        assert rc == 0, out
    head = subprocess.run("git -C /repo rev-parse HEAD", shell=True, capture_output=True, text=True).stdout.strip()
    sh(f"git -C {repo} checkout -q --detach {head}; git -C {repo} checkout -q -- . ; git -C {repo} clean -fdq -e target -e Cargo.lock")
    shutil.copy("/repo/Cargo.lock", f"{repo}/Cargo.lock")
    result = {"property": prop, "name": name, "agent_summary": agent_meta.get("summary"), "needs_to_manifest": agent_meta.get("needs_to_manifest"),
              "files_changed": agent_meta.get("files_changed"), "repo_commit": head, "confirmed": {}}

    demo_files = os.listdir(os.path.join(dest, "demo"))
    demo_cmd = agent_meta.get("demo_command", "cargo test -p falcon-rust --test seeded_demo --offline")
    demo_cmd = re.sub(r"cd\s+/tmp/seed\d*/C\d+\s*&&\s*", "", demo_cmd)
    demo_cmd = re.sub(r"/tmp/seed\d*/C\d+", repo, demo_cmd)
    demo_cmd = re.split(r"\s{2,}\(|\s\((?=[a-z])", demo_cmd)[0].strip()   # drop trailing prose in parentheses
    if "--offline" not in demo_cmd:
        demo_cmd += " --offline"

    in_benchmark = "benchmark_manifest.diff" in demo_files
    def put_demo():
        if in_benchmark:
            # the demonstration lives in the benchmark crate (it needs the reference implementation)
            os.makedirs(f"{repo}/benchmark/tests", exist_ok=True)
            for f in demo_files:
                if not f.endswith(".diff") and not f.endswith(".txt"):
                    shutil.copy(os.path.join(dest, "demo", f), f"{repo}/benchmark/tests/{f}")
            sh(f"git -C {repo} apply {dest}/demo/benchmark_manifest.diff")
            return
        os.makedirs(f"{repo}/falcon-rust/tests", exist_ok=True)
        for f in demo_files:
            shutil.copy(os.path.join(dest, "demo", f), f"{repo}/falcon-rust/tests/{f}")
    def drop_demo():
        shutil.rmtree(f"{repo}/falcon-rust/tests", ignore_errors=True)
        shutil.rmtree(f"{repo}/benchmark/tests", ignore_errors=True)
        if in_benchmark:
            sh(f"git -C {repo} checkout -q -- benchmark/Cargo.toml")

    # 1. patch applies, baseline suite passes with the change
    rc, out = sh(f"git -C {repo} apply {dest}/patch.diff")
    result["confirmed"]["patch_applies"] = rc == 0
    if rc != 0:
        result["confirmed"]["error"] = out[-400:]
        json.dump(result, open(os.path.join(dest, "meta.json"), "w"), indent=1)
        print(json.dumps(result, indent=1)); return
    t = time.time()
    rc, out = sh("cargo test --workspace --no-fail-fast --offline", cwd=repo)
    failed = re.findall(r"^test (\S+) \.\.\. FAILED", out, re.M)
    compiled = "error: could not compile" not in out and "error[" not in out
    result["confirmed"]["compiles"] = compiled
    result["confirmed"]["baseline_suite_with_change"] = "pass" if rc == 0 else ("fail: " + ",".join(failed) if compiled else "does not compile")
    result["confirmed"]["baseline_cmd"] = "cargo test --workspace --no-fail-fast --offline"
    # 2. demo fails with the change
    put_demo()
    rc, out = sh(demo_cmd, cwd=repo)
    result["confirmed"]["demo_cmd"] = demo_cmd
    result["confirmed"]["demo_with_change"] = "fails" if rc != 0 else "PASSES (unexpected)"
    result["confirmed"]["demo_with_change_tail"] = [l for l in out.splitlines() if "test result" in l or "panicked" in l][-4:]
    # 3. demo passes without it
    sh(f"git -C {repo} apply -R {dest}/patch.diff")
    rc, out = sh(demo_cmd, cwd=repo)
    result["confirmed"]["demo_without_change"] = "passes" if rc == 0 else "FAILS (unexpected)"
    drop_demo()

    # 4. the checks against the change
    verif = f"{SCRATCH}/verif"
    os.makedirs(verif, exist_ok=True)
    sh(f"rsync -a --delete --exclude target --exclude fuzz/target --exclude fuzz/work --exclude replays --exclude .git /verif/ {verif}/")
    sh(f"sed -i 's#/repo/falcon-rust#{repo}/falcon-rust#' {verif}/harness/Cargo.toml {verif}/fuzz/Cargo.toml")
    sh(f"git -C {repo} apply {dest}/patch.diff")
    caught, missed, broken, details = [], [], [], {}
    for cid in checks:
        rc, out = sh(f"./check {cid} quick", cwd=verif, timeout=3000)
        lines = [l for l in out.splitlines() if l.startswith("VIOLATION") or l.startswith("  [")]
        if rc == 1 and any(l.startswith("VIOLATION") for l in lines):
            caught.append(cid); details[cid] = [l[:300] for l in lines[:3]]
        elif rc == 0:
            missed.append(cid)
        else:
            broken.append(f"{cid}({rc})"); details[cid] = out[-300:]
    sh(f"git -C {repo} checkout -q -- .")
    sh(f"rm -rf {verif}/replays")
    result["checks_run"] = [f"./check {c} quick" for c in checks]
    result["caught_by"] = caught
    result["not_caught_by"] = missed
    result["check_errors"] = broken
    result["first_lines"] = details
    json.dump(result, open(os.path.join(dest, "meta.json"), "w"), indent=1)
    print(json.dumps({k: result[k] for k in ["name", "confirmed", "caught_by", "not_caught_by", "check_errors"]}, indent=1))

if __name__ == "__main__":
    main()
