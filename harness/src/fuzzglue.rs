//! Glue between the cargo-fuzz targets and the stable harness: seed corpora produced from the
//! current tree, and replay of raw libFuzzer artifacts through the same function bodies.

use std::path::Path;

use crate::api;
use crate::engine::no_panic;
use crate::fuzzbody;
use crate::util::mix;
use refimpl::params::params;

pub fn target_for(prop: &str) -> Option<&'static str> {
    match prop {
        "C02" | "C03" | "C06" => Some("fuzz_decoders"),
        "C07" => Some("fuzz_codec"),
        "C09" => Some("fuzz_sampler"),
        _ => None,
    }
}

fn run_body(target: &str, data: &[u8]) -> Result<(), String> {
    match target {
        "fuzz_decoders" => no_panic(|| fuzzbody::decoders(data)),
        "fuzz_codec" => no_panic(|| fuzzbody::codec(data)),
        "fuzz_sampler" => no_panic(|| fuzzbody::sampler_target(data)),
        _ => Err(format!("unknown fuzz target {}", target)),
    }
}

/// Which property a failure message of a fuzz body speaks about.
fn property_of(msg: &str, default: &str) -> String {
    if let Some(i) = msg.find("ORACLE: C") {
        return msg[i + 8..i + 11].to_string();
    }
    // a panic inside the library: totality
    if default == "C07" || default == "C09" {
        default.to_string()
    } else {
        "C03".to_string()
    }
}

/// `./check <ID> --replay <raw artifact>`
pub fn replay_raw(prop: &str, path: &Path) -> i32 {
    let target = match target_for(prop) {
        Some(t) => t,
        None => {
            eprintln!("harness: {} has no fuzz target; the replay file must be a JSON case", prop);
            return 2;
        }
    };
    let data = match std::fs::read(path) {
        Ok(d) => d,
        Err(e) => {
            eprintln!("harness: {}: {}", path.display(), e);
            return 2;
        }
    };
    match run_body(target, &data) {
        Ok(()) => {
            println!("replay {} through {}: ok", path.display(), target);
            0
        }
        Err(msg) => {
            let p = property_of(&msg, prop);
            println!("replay {} through {}: FAIL {}", path.display(), target, msg);
            println!("VIOLATION property={} replay={}", p, path.display());
            1
        }
    }
}

/// `fvh fuzz-triage <ID> <artifact>...`: prints one line per artifact: "<property> <path> <message>"
pub fn triage(prop: &str, paths: &[String]) -> i32 {
    let target = target_for(prop).unwrap_or("fuzz_decoders");
    let mut bad = 0;
    for p in paths {
        if let Ok(data) = std::fs::read(p) {
            if let Err(msg) = run_body(target, &data) {
                println!("{} {} {}", property_of(&msg, prop), p, msg);
                bad += 1;
            }
        }
    }
    if bad > 0 {
        1
    } else {
        0
    }
}

/// `fvh fuzz-seeds <target> <dir>`: a seed corpus of honest encodings made from the current tree,
/// plus the raw inputs behind the committed regression cases.
pub fn write_seeds(target: &str, dir: &Path, seed: u64) -> i32 {
    let _ = std::fs::create_dir_all(dir);
    let mut k = 0;
    let mut put = |bytes: Vec<u8>| {
        let _ = std::fs::write(dir.join(format!("seed-{:04}", k)), bytes);
        k += 1;
    };
    let keys: Vec<(usize, std::sync::Arc<api::Key>)> = [512usize, 1024].iter().map(|&n| (n, api::key(n, crate::util::seed32(seed ^ n as u64)))).collect();
    match target {
        "fuzz_decoders" => {
            for (n, key) in &keys {
                let v = (*n == 1024) as u8;
                let with = |sel: u8, b: &[u8]| {
                    let mut x = vec![(sel << 1) | v];
                    x.extend_from_slice(b);
                    x
                };
                put(with(0, &key.pk_bytes));
                put(with(2, &key.sk_bytes));
                for i in 0..6u64 {
                    let msg = mix(i).to_le_bytes();
                    let sig = api::sign_with(&msg, &key.sk, Box::new(crate::util::chacha(i))).to_bytes();
                    put(with(3, &sig));
                    put(with(4, &sig[41..]));
                    let mut m = msg.to_vec();
                    m.extend_from_slice(&sig);
                    put(with(7, &m));
                }
                // bodies that end exactly at the buffer end / carry long runs (the D1 / D2 shapes)
                let p = params(*n);
                let blen = p.sig_len - 41;
                for d in [-9i32, -8, -1, 0] {
                    let spec = crate::gen::BodySpec {
                        n: *n,
                        len: blen,
                        coefs: (0..*n).map(|i| crate::gen::Coef { neg: i % 3 == 0, low: (i % 127) as u8 + 1, high: (i % 2) as u16 }).collect(),
                        steer: Some((*n - 1, d, 7, true)),
                        tail: crate::gen::Tail::Zeros,
                        flips: vec![],
                        allow_neg_zero: false,
                    };
                    put(with(5, &spec.render()));
                }
            }
        }
        "fuzz_codec" => {
            for (n, key) in &keys {
                let sel = if *n == 512 { 0xFF } else { 0xFE };
                for i in 0..6u64 {
                    let msg = mix(i).to_le_bytes();
                    let sig = api::sign_with(&msg, &key.sk, Box::new(crate::util::chacha(i))).to_bytes();
                    let mut x = vec![sel, (i as u8) << 1];
                    x.extend_from_slice(&sig[41..]);
                    put(x);
                }
            }
            for n in [1u8, 2, 3, 8, 33] {
                for mode in [0u8, 1, 5] {
                    let v: Vec<i64> = (0..=n as i64).map(|i| (i * 37 % 300) - 150).collect();
                    let need = (refimpl::codec::total_bits(&v) + 7) / 8;
                    let mut x = vec![n, mode];
                    x.extend(refimpl::codec::encode(&v, need + 1).unwrap());
                    put(x);
                }
            }
        }
        "fuzz_sampler" => {
            for i in 0..24u64 {
                let mut s = mix(seed ^ i);
                let bytes: Vec<u8> = (0..25 + 17 * (1 + i % 4))
                    .map(|j| {
                        s = mix(s);
                        if i % 3 == 0 && j % 4 == 0 {
                            0
                        } else {
                            s as u8
                        }
                    })
                    .collect();
                put(bytes);
            }
        }
        _ => return 2,
    }
    println!("{} seeds written to {}", k, dir.display());
    0
}
