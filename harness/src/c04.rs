//! C04 — every generated key pair is a valid NTRU trapdoor with in-range tree leaves.

use proptest::prelude::*;
use serde::{Deserialize, Serialize};
use serde_json::json;
use std::path::Path;

use crate::api::{self, seed_from, seed_hex};
use crate::engine::*;
use crate::gen;
use crate::util::Hex;
use refimpl::params::{params, Q};
use refimpl::{keys, lattice, zq};

#[derive(Clone, Debug, Serialize, Deserialize)]
pub struct KeyCase {
    pub n: usize,
    pub seed: Hex,
    /// also run the O((2n)^3) Gram-Schmidt comparison
    pub gram_schmidt: bool,
}

pub struct Trapdoor;

pub fn check_basis(n: usize, f: &[i64], g: &[i64], cf: &[i64], cg: &[i64], leaves: &[f64], what: &str, st: &mut Stats) -> Result<(), Fail> {
    let p = params(n);
    // 1. f G - g F = q exactly over Z[X]/(X^n+1)
    let lhs = lattice::ntru_lhs(f, g, cf, cg);
    let bad = (0..n).find(|&i| lhs[i] != if i == 0 { Q } else { 0 });
    ensure!(bad.is_none(), &format!("key:ntru-equation:{}", what), "{}: (f G - g F)[{}] = {} (the NTRU equation requires {})", what, bad.unwrap_or(0), lhs[bad.unwrap_or(0)], if bad == Some(0) { Q } else { 0 });
    // 2. f invertible mod q
    let ef = zq::evaluate_at_roots(f);
    ensure!(ef.iter().all(|&x| x != 0), &format!("key:f-not-invertible:{}", what), "{}: f vanishes at a root of X^n+1 mod q", what);
    // 4. leaves inside [sigma_min, sigma_max]
    ensure!(leaves.len() == n, &format!("key:leaf-count:{}", what), "{}: the tree has {} leaves, expected {}", what, leaves.len(), n);
    let (lo, hi) = (p.sigma_min * (1.0 - 1e-9), p.sigma_max * (1.0 + 1e-9));
    for (i, &l) in leaves.iter().enumerate() {
        ensure!(l.is_finite() && l >= lo && l <= hi, &format!("key:leaf-range:{}", what), "{}: leaf {} = {} is outside [sigma_min, sigma_max] = [{}, {}]", what, i, l, p.sigma_min, p.sigma_max);
    }
    let min = leaves.iter().cloned().fold(f64::INFINITY, f64::min);
    let max = leaves.iter().cloned().fold(0.0, f64::max);
    st.range(&format!("leaf_over_sigma_min_{}", n), min / p.sigma_min);
    st.range(&format!("leaf_over_sigma_max_{}", n), max / p.sigma_max);
    Ok(())
}

impl Sub for Trapdoor {
    type Case = KeyCase;
    fn restrictable(&self) -> bool {
        true
    }
    fn name(&self) -> &'static str {
        "keygen_trapdoor"
    }
    fn max_shrink_iters(&self) -> u32 {
        16
    }
    fn batch(&self) -> usize {
        1
    }
    fn strategy(&self, _env: &Env) -> BoxedStrategy<KeyCase> {
        (prop_oneof![4 => Just(512usize), 1 => Just(1024usize)], gen::seed_strategy()).prop_map(|(n, s)| KeyCase { n, seed: seed_hex(&s), gram_schmidt: false }).boxed()
    }
    fn check(&self, c: &KeyCase, st: &mut Stats) -> Result<(), Fail> {
        let seed = seed_from(&c.seed).ok_or_else(|| Fail::new("harness:bad-replay", "seed must be 32 bytes"))?;
        let n = c.n;
        let p = params(n);
        let (sk, pk) = api::keygen(n, seed);
        let (f, g, cf, cg) = sk.fg();
        let leaves = sk.leaves();
        check_basis(n, &f, &g, &cf, &cg, &leaves, "generated", st)?;
        // 3. the public key bytes carry h with h f = g mod q
        let pkb = pk.to_bytes();
        let h = keys::decode_pk(&pkb, n).map_err(|e| Fail::new("key:pk-bytes", format!("the generated public key does not parse as a specification public key: {:?}", e)))?;
        let hf = zq::negacyclic_mul_fast(&h, &f);
        let bad = (0..n).find(|&i| hf[i] != zq::modq(g[i]));
        ensure!(bad.is_none(), "key:public-key", "h f != g mod q at coefficient {}", bad.unwrap_or(0));
        // 6. the same on the key decoded from its own bytes, when it decodes
        let skb = sk.to_bytes();
        match api::Sk::from_bytes(n, &skb) {
            Ok(sk2) => {
                let (f2, g2, cf2, cg2) = sk2.fg();
                check_basis(n, &f2, &g2, &cf2, &cg2, &sk2.leaves(), "decoded-from-own-bytes", st)?;
                st.count("decoded_key_checked");
            }
            Err(_) => st.count("own_bytes_do_not_decode(C05)"),
        }
        // 5. leaves are the normalised Gram-Schmidt norms of the basis
        if c.gram_schmidt {
            let order: Vec<usize> = (0..n).map(|k| zq::bitrev(k, p.logn)).collect();
            let rows = lattice::basis_rows(&f, &g, &cf, &cg, &order);
            let gs = lattice::gram_schmidt(&rows);
            let mut norms: Vec<f64> = gs.iter().map(|v| lattice::norm(v)).collect();
            let max_gs = norms.iter().cloned().fold(0.0, f64::max);
            ensure!(max_gs <= 1.17 * (Q as f64).sqrt() * (1.0 + 1e-9), "key:gs-norm", "Gram-Schmidt norm {} exceeds 1.17 sqrt(q) = {}", max_gs, 1.17 * (Q as f64).sqrt());
            let mut from_gs: Vec<f64> = norms.drain(..).map(|x| p.sigma / x).collect();
            from_gs.sort_by(|a, b| a.partial_cmp(b).unwrap());
            let mut from_tree: Vec<f64> = leaves.iter().flat_map(|&l| [l, l]).collect();
            from_tree.sort_by(|a, b| a.partial_cmp(b).unwrap());
            let worst = from_gs.iter().zip(from_tree.iter()).map(|(a, b)| ((a - b) / a).abs()).fold(0.0, f64::max);
            ensure!(worst <= 1e-6, "key:leaves-vs-gram-schmidt", "the sorted leaves differ from sigma / ||b~_i|| by a relative {}", worst);
            st.range("leaves_vs_gram_schmidt_relative_difference", worst);
            st.range("max_gram_schmidt_norm_over_1.17_sqrt_q", max_gs / (1.17 * (Q as f64).sqrt()));
            st.count(&format!("gram_schmidt_checked_{}", n));
        }
        let max_fg = f.iter().chain(g.iter()).map(|x| x.abs()).max().unwrap_or(0);
        let max_cap = cf.iter().chain(cg.iter()).map(|x| x.abs()).max().unwrap_or(0);
        st.range(&format!("max_abs_f_g_{}", n), max_fg as f64);
        st.range(&format!("max_abs_F_G_{}", n), max_cap as f64);
        st.nontrivial(&(n, seed));
        st.count(&format!("keys_{}", n));
        st.sample(&format!("key_{}", n), || json!({"n": n, "seed": crate::util::hex(&seed), "max_abs_fg": max_fg, "max_abs_FG": max_cap, "min_leaf": leaves.iter().cloned().fold(f64::INFINITY, f64::min)}));
        Ok(())
    }
}

// ------------------------------------------------------------------ keys from OS randomness

/// `SecretKey::generate()` (seed drawn from the operating system) and the public key derived from
/// it: the same invariants as for seeded generation. The key is not reproducible from the case, so
/// a failure is handed on as a `key_bytes` case carrying the encodings.
#[derive(Clone, Debug, Serialize, Deserialize)]
pub struct NaturalCase {
    n: usize,
    index: u32,
}

pub struct NaturalKey;

impl Sub for NaturalKey {
    type Case = NaturalCase;
    fn name(&self) -> &'static str {
        "generate_from_os_randomness"
    }
    fn max_shrink_iters(&self) -> u32 {
        0
    }
    fn batch(&self) -> usize {
        1
    }
    fn strategy(&self, _env: &Env) -> BoxedStrategy<NaturalCase> {
        (prop_oneof![3 => Just(512usize), 1 => Just(1024usize)], any::<u32>()).prop_map(|(n, index)| NaturalCase { n, index }).boxed()
    }
    fn check(&self, c: &NaturalCase, st: &mut Stats) -> Result<(), Fail> {
        let n = c.n;
        let (sk, pk) = api::generate(n);
        let (skb, pkb) = (sk.to_bytes(), pk.to_bytes());
        let minimal = json!({"n": n, "sk": crate::util::hex(&skb), "pk": crate::util::hex(&pkb)});
        let (f, g, cf, cg) = sk.fg();
        check_basis(n, &f, &g, &cf, &cg, &sk.leaves(), "generated-from-os-randomness", st).map_err(|e| e.with_minimal(minimal.clone()).into_sub("key_bytes"))?;
        KeyBytes.check(&BytesCase { n, sk: crate::util::Hex(skb.clone()), pk: crate::util::Hex(pkb) }, st).map_err(|e| e.with_minimal(minimal.clone()).into_sub("key_bytes"))?;
        // a second call gives another key
        let (sk2, _) = api::generate(n);
        ensure!(sk2.to_bytes() != skb, "key:os-randomness-repeats", "two consecutive calls of SecretKey::generate() returned the same key");
        st.nontrivial(&(n, skb));
        st.count(&format!("keys_from_os_randomness_{}", n));
        Ok(())
    }
}

/// The byte-level part of the invariants, on stored encodings (replay form of a failing
/// `generate_from_os_randomness` case): G is recomputed as g F / f mod q, centred.
#[derive(Clone, Debug, Serialize, Deserialize)]
pub struct BytesCase {
    n: usize,
    sk: crate::util::Hex,
    pk: crate::util::Hex,
}

pub struct KeyBytes;

impl Sub for KeyBytes {
    type Case = BytesCase;
    fn name(&self) -> &'static str {
        "key_bytes"
    }
    fn strategy(&self, _env: &Env) -> BoxedStrategy<BytesCase> {
        // replay form only: generated cases come from `generate_from_os_randomness`
        Just(BytesCase { n: 512, sk: crate::util::Hex(vec![]), pk: crate::util::Hex(vec![]) }).boxed()
    }
    fn check(&self, c: &BytesCase, st: &mut Stats) -> Result<(), Fail> {
        let n = c.n;
        if c.sk.0.is_empty() {
            return Ok(());
        }
        let (f, g, cf) = keys::decode_sk(&c.sk.0, n).map_err(|e| Fail::new("key:sk-bytes", format!("the generated secret key does not parse as a specification secret key: {:?}", e)))?;
        let h = keys::decode_pk(&c.pk.0, n).map_err(|e| Fail::new("key:pk-bytes", format!("the generated public key does not parse as a specification public key: {:?}", e)))?;
        ensure!(zq::evaluate_at_roots(&f).iter().all(|&x| x != 0), "key:f-not-invertible:bytes", "f vanishes at a root of X^n+1 mod q");
        let cg: Vec<i64> = zq::ring_div(&zq::negacyclic_mul_fast(&g, &cf), &f).ok_or_else(|| Fail::new("key:f-not-invertible:bytes", "f is not invertible"))?.iter().map(|&x| zq::centred(x)).collect();
        let lhs = lattice::ntru_lhs(&f, &g, &cf, &cg);
        let bad = (0..n).find(|&i| lhs[i] != if i == 0 { Q } else { 0 });
        ensure!(bad.is_none(), "key:ntru-equation:bytes", "with G = g F / f mod q (centred): (f G - g F)[{}] = {}", bad.unwrap_or(0), lhs[bad.unwrap_or(0)]);
        let hf = zq::negacyclic_mul_fast(&h, &f);
        let bad = (0..n).find(|&i| hf[i] != zq::modq(g[i]));
        ensure!(bad.is_none(), "key:public-key", "h f != g mod q at coefficient {}", bad.unwrap_or(0));
        let sk = api::Sk::from_bytes(n, &c.sk.0).map_err(|e| Fail::new("key:own-bytes-rejected", format!("the key's own encoding does not decode: {}", e)))?;
        let (f2, g2, cf2, cg2) = sk.fg();
        check_basis(n, &f2, &g2, &cf2, &cg2, &sk.leaves(), "decoded-from-own-bytes", st)?;
        st.count("key_encodings_checked");
        Ok(())
    }
}

// ------------------------------------------------------------------ run-time selection of seeds

/// Features of a seed's candidate loop under the CURRENT code (replayed through the hooks, every
/// seed on a thread of its own): how close a candidate's Gram-Schmidt norm comes to the acceptance
/// threshold, how many candidates in a row have a non-invertible f, how many candidates are
/// rejected before one passes the cheap tests. Only selects inputs.
fn candidate_features(n: usize, seed: [u8; 32]) -> (f64, u32, u32) {
    use falcon_rust::verif_hooks::keygen_parts as kp;
    use rand::SeedableRng;
    let bound = 1.3689f64 * 12289.0;
    let lim = (1i64 << (params(n).fg_bits - 1)) - 1;
    let mut rng = rand::rngs::StdRng::from_seed(seed);
    let (mut closest, mut run, mut longest_run, mut rejected) = (f64::INFINITY, 0u32, 0u32, 0u32);
    for _ in 0..200 {
        let f = kp::gen_poly(n, &mut rng);
        let g = kp::gen_poly(n, &mut rng);
        if f.iter().chain(g.iter()).any(|x| (*x as i64).abs() > lim) {
            rejected += 1;
            run = 0;
            continue;
        }
        if zq::evaluate_at_roots(&crate::util::to_i64(&f)).iter().any(|&x| x == 0) {
            rejected += 1;
            run += 1;
            longest_run = longest_run.max(run);
            continue;
        }
        run = 0;
        let gamma = kp::gram_schmidt_norm_squared(&f, &g);
        closest = closest.min((gamma - bound).abs());
        if gamma <= bound {
            break;
        }
        rejected += 1;
    }
    (closest, longest_run, rejected)
}

fn selected_seeds(env: &Env, n: usize, count: usize, keep: usize) -> Vec<KeyCase> {
    let seeds = api::seed_list(env.seed, 0x5E1EC7 ^ n as u64, count);
    let next = std::sync::atomic::AtomicUsize::new(0);
    let rows = std::sync::Mutex::new(Vec::with_capacity(count));
    std::thread::scope(|sc| {
        for _ in 0..env.workers.max(1) {
            sc.spawn(|| loop {
                let i = next.fetch_add(1, std::sync::atomic::Ordering::Relaxed);
                if i >= seeds.len() {
                    break;
                }
                let seed = seeds[i];
                let r = std::thread::scope(|one| one.spawn(move || no_panic(|| candidate_features(n, seed))).join());
                if let Ok(Ok(f)) = r {
                    rows.lock().unwrap().push((f, seed));
                }
            });
        }
    });
    let mut rows = rows.into_inner().unwrap();
    let mut picked: Vec<[u8; 32]> = vec![];
    rows.sort_by(|a, b| a.0 .0.partial_cmp(&b.0 .0).unwrap());
    picked.extend(rows.iter().take(keep).map(|r| r.1));
    rows.sort_by_key(|r| std::cmp::Reverse(r.0 .1));
    picked.extend(rows.iter().take(keep).map(|r| r.1));
    rows.sort_by_key(|r| std::cmp::Reverse(r.0 .2));
    picked.extend(rows.iter().take(keep).map(|r| r.1));
    picked.sort();
    picked.dedup();
    picked.into_iter().map(|s| KeyCase { n, seed: seed_hex(&s), gram_schmidt: false }).collect()
}

const META: Meta = Meta {
    rule: "proptest (variant, 32-byte seed) with random seeds plus all-zero, all-0xFF and single-bit seeds; each case runs the whole key generation and checks, on the secret basis read through the hook and on the public/secret key bytes: f G - g F = q exactly (i64 schoolbook), f(psi^(2k+1)) != 0 mod q at every root, h f = g mod q with h parsed from the public-key bytes, every tree leaf in [sigma_min, sigma_max] (relative slack 1e-9 for rounding), the same on the key decoded from its own bytes, and on a subset the sorted leaves equal sigma/||b~_i|| from a plain Gram-Schmidt of the 2n x 2n basis (rows in bit-reversed rotation order) within 1e-6 with max ||b~_i|| <= 1.17 sqrt(q). On top of the committed corpus of hunted seeds, seeds are selected at run time through the hooks, under the code being checked (Gram-Schmidt norm closest to the acceptance threshold, longest run of non-invertible candidates, most rejected candidates). The same invariants hold for keys made by SecretKey::generate() (seed from the operating system; a failing key is written out as its two encodings and replayed through the byte-level checks: G recomputed as g F / f mod q). Every distinct (variant, seed) or key is non-trivial (key generation always runs the whole pipeline).",
    assumptions: &[
        "oracle: exact integer arithmetic (refimpl::lattice, refimpl::zq), specification parameters (refimpl::params), plain modified Gram-Schmidt in f64",
        "the hook accessors return the in-memory basis and tree leaves unchanged",
    ],
};

pub fn run(env: &Env, replay: Option<&Path>) -> i32 {
    let mut report = Report::new();
    let subs: [&dyn DynSub; 3] = [&Trapdoor, &NaturalKey, &KeyBytes];
    if let Some(p) = replay {
        if let Err(e) = replay_file(env, &subs, p, &mut report) {
            eprintln!("harness: {}", e);
            return 2;
        }
        return finish(env, report, &META);
    }
    replay_corpus(env, &subs, &mut report);
    // Gram-Schmidt subset: explicit cases (expensive), then the generated ones
    let (gs512, gs1024) = env.tier.pick((4, 1), (48, 12));
    let gs_cases: Vec<KeyCase> = api::seed_list(env.seed, 0xC04, gs512)
        .into_iter()
        .map(|s| KeyCase { n: 512, seed: seed_hex(&s), gram_schmidt: true })
        .chain(api::seed_list(env.seed, 0xC04_1024, gs1024).into_iter().map(|s| KeyCase { n: 1024, seed: seed_hex(&s), gram_schmidt: true }))
        .collect();
    // the Gram-Schmidt cases are few and slow (seconds each): run them beside the generated search
    let side = std::thread::scope(|sc| {
        let h = sc.spawn(|| {
            let mut r = Report::new();
            drive_enumerated(env, &Trapdoor, gs_cases.into_iter(), &mut r);
            r
        });
        drive(env, &Trapdoor, env.tier.pick(128, 5000), &mut report);
        drive(env, &NaturalKey, env.tier.pick(16, 400), &mut report);
        // seeds selected at run time, under the code being checked: Gram-Schmidt norm closest to the
        // threshold, longest run of non-invertible candidates, most rejected candidates
        let (scan512, scan1024, keep) = env.tier.pick((1500usize, 300usize, 2usize), (40_000, 8_000, 8));
        let mut picked = selected_seeds(env, 512, scan512, keep);
        picked.extend(selected_seeds(env, 1024, scan1024, (keep / 2).max(1)));
        report.extra.insert("run_time_selection".into(), json!({"seeds_scanned_512": scan512, "seeds_scanned_1024": scan1024, "kept": picked.len()}));
        drive_enumerated(env, &Trapdoor, picked.into_iter(), &mut report);
        h.join().expect("Gram-Schmidt side thread")
    });
    report.merge(side);
    finish(env, report, &META)
}

/// `fvh hunt-c04 <n> <first> <count>`: seeds for which some candidate (f, g) of the key generator's
/// loop has a squared Gram-Schmidt norm within 1.0 of the acceptance bound 1.17^2 q (on either
/// side). Such seeds are where the acceptance test's comparison matters; found seeds go to the corpus.
pub fn hunt(n: usize, first: u64, count: u64) {
    use falcon_rust::verif_hooks::keygen_parts as kp;
    use rand::SeedableRng;
    let bound = 1.3689f64 * 12289.0;
    let lim = (1i64 << (params(n).fg_bits - 1)) - 1;
    let next = std::sync::atomic::AtomicU64::new(0);
    std::thread::scope(|sc| {
        for _ in 0..16 {
            sc.spawn(|| loop {
                let i = next.fetch_add(1, std::sync::atomic::Ordering::Relaxed);
                if i >= count {
                    break;
                }
                let seed = crate::util::seed32(0xC04_0000_0000 + first + i);
                let mut rng = rand::rngs::StdRng::from_seed(seed);
                for _ in 0..200 {
                    let f = kp::gen_poly(n, &mut rng);
                    let g = kp::gen_poly(n, &mut rng);
                    if f.iter().chain(g.iter()).any(|x| (*x as i64).abs() > lim) {
                        continue;
                    }
                    if zq::evaluate_at_roots(&crate::util::to_i64(&f)).iter().any(|&x| x == 0) {
                        continue;
                    }
                    let gamma = kp::gram_schmidt_norm_squared(&f, &g);
                    if (gamma - bound).abs() < 1.0 {
                        println!("{} {} {:.4} {}", n, crate::util::hex(&seed), gamma, if gamma > bound { "narrowly-rejected" } else { "narrowly-accepted" });
                    }
                    if gamma <= bound {
                        break; // the key generator goes on to solve the NTRU equation here
                    }
                }
            });
        }
    });
}

/// `fvh hunt-noninv <n> <first> <count>`: seeds whose stream of candidate polynomials starts with a
/// run of non-invertible ones (each polynomial is non-invertible with probability about n/q, so a
/// run of three is a 1-in-15000 / 1-in-2000 seed): the generator's rejection branch for a
/// non-invertible f is then taken several times in a row, and its neighbours in the stream are
/// non-invertible too.
pub fn hunt_noninv(n: usize, first: u64, count: u64) {
    use falcon_rust::verif_hooks::keygen_parts as kp;
    use rand::SeedableRng;
    let next = std::sync::atomic::AtomicU64::new(0);
    std::thread::scope(|sc| {
        for _ in 0..16 {
            sc.spawn(|| loop {
                let i = next.fetch_add(1, std::sync::atomic::Ordering::Relaxed);
                if i >= count {
                    break;
                }
                let seed = crate::util::seed32(0xC04_1000_0000 + first + i);
                let mut rng = rand::rngs::StdRng::from_seed(seed);
                let mut flags = String::new();
                for k in 0..8 {
                    let p = kp::gen_poly(n, &mut rng);
                    let inv = !zq::evaluate_at_roots(&crate::util::to_i64(&p)).iter().any(|&x| x == 0);
                    flags.push(if inv { '.' } else { 'X' });
                    if k == 1 && !flags.starts_with("XX") && !flags.starts_with("X.") {
                        break;
                    }
                }
                // f0 non-invertible and (f1, g1) both non-invertible; or f0, f1, f2 non-invertible
                let b = flags.as_bytes();
                let x = |i: usize| b.get(i) == Some(&b'X');
                if x(0) && x(2) && x(3) {
                    println!("{} {} {} stream-run", n, crate::util::hex(&seed), flags);
                } else if x(0) && x(2) && x(4) {
                    println!("{} {} {} three-candidates", n, crate::util::hex(&seed), flags);
                } else if x(0) && x(1) {
                    println!("{} {} {} both", n, crate::util::hex(&seed), flags);
                }
            });
        }
    });
}

/// `fvh hunt-root0 <n> <first> <count>`: seeds in which a candidate examined before the accepted
/// one has an f that vanishes at exactly one root of X^n+1 mod q, namely the one in the first or
/// the last slot of the library's transform order, and that would otherwise have been accepted
/// (range, Gram-Schmidt norm, solvable with 8-bit F, G): the invertibility test is the only thing
/// between that candidate and the key. About one seed in 6000.
pub fn hunt_root0(n: usize, first: u64, count: u64) {
    use falcon_rust::verif_hooks::keygen_parts as kp;
    use rand::SeedableRng;
    let lim = (1i64 << (params(n).fg_bits - 1)) - 1;
    let next = std::sync::atomic::AtomicU64::new(0);
    std::thread::scope(|sc| {
        for _ in 0..16 {
            sc.spawn(|| loop {
                let i = next.fetch_add(1, std::sync::atomic::Ordering::Relaxed);
                if i >= count {
                    break;
                }
                let seed = crate::util::seed32(0xC04_2000_0000 + first + i);
                let mut rng = rand::rngs::StdRng::from_seed(seed);
                for cand in 0..60 {
                    let f = kp::gen_poly(n, &mut rng);
                    let g = kp::gen_poly(n, &mut rng);
                    if f.iter().chain(g.iter()).any(|x| (*x as i64).abs() > lim) {
                        continue;
                    }
                    let canon: Vec<i16> = f.iter().map(|&x| zq::modq(x as i64) as i16).collect();
                    let t = falcon_rust::verif_hooks::ntt(&canon);
                    let zeros: Vec<usize> = (0..n).filter(|&k| t[k] == 0).collect();
                    let gs_ok = kp::gram_schmidt_norm_squared(&f, &g) <= 1.3689 * 12289.0;
                    if !zeros.is_empty() {
                        if zeros.len() == 1 && (zeros[0] == 0 || zeros[0] == n - 1) && gs_ok {
                            if let Some((cf, cg)) = kp::ntru_solve(&f, &g) {
                                if cf.iter().chain(cg.iter()).all(|x| x.abs() <= 127) {
                                    println!("{} {} candidate={} slot={}", n, crate::util::hex(&seed), cand, zeros[0]);
                                }
                            }
                        }
                        continue;
                    }
                    if gs_ok {
                        break; // the generator goes on to solve here; later candidates are rarely reached
                    }
                }
            });
        }
    });
}
