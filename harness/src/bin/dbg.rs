use falcon_rust::falcon512;
fn main() {
    let mut seed = [0u8; 32];
    seed[4] = 0x80;
    let (sk, _pk) = falcon512::keygen(seed);
    let b = sk.verif_basis();
    let sk2 = falcon512::SecretKey::from_bytes(&sk.to_bytes()).unwrap();
    let b2 = sk2.verif_basis();
    for k in 0..4 {
        let diff: Vec<(usize, i16, i16)> = (0..512).filter(|&i| b[k][i] != b2[k][i]).map(|i| (i, b[k][i], b2[k][i])).collect();
        println!("poly {} max {} diffs {} {:?}", k, b[k].iter().map(|x| x.abs()).max().unwrap(), diff.len(), &diff[..diff.len().min(5)]);
    }
    println!("eq: {}", sk == sk2);
}
