#[path = "../util.rs"]
#[allow(dead_code)]
mod util;
use falcon_rust::{falcon512, falcon1024, verif_hooks};
fn main() {
    let seed = [7u8; 32];
    let (sk, pk) = falcon512::keygen(seed);
    let (sk2, pk2) = falcon1024::keygen(seed);
    for (p, bl) in [(2500u32, 200_000usize), (3000, 200_000), (3500, 200_000), (4000, 200_000), (6000, 8_000), (6000, 16_000), (10000, 8000), (10000, 16000), (20000, 4000), (20000, 8000), (40000, 4000)] {
        let (mut nr, mut cr, mut bytes) = (0, 0, 0usize);
        let (mut nr2, mut cr2) = (0, 0);
        let t = std::time::Instant::now();
        for i in 0..200u64 {
            let rng = util::BiasedRng::new(i * 977 + p as u64, p, bl);
            let msg = i.to_le_bytes();
            let sig = verif_hooks::with_sign_rng(Box::new(rng), || falcon512::sign(&msg, &sk));
            let (a, b) = verif_hooks::take_sign_counters();
            nr += a; cr += b;
            assert!(falcon512::verify(&msg, &sig, &pk));
            bytes += sig.to_bytes().len();
            if i < 60 {
                let rng = util::BiasedRng::new(i * 977 + p as u64, p, 2 * bl);
                let sig = verif_hooks::with_sign_rng(Box::new(rng), || falcon1024::sign(&msg, &sk2));
                let (a, b) = verif_hooks::take_sign_counters();
                nr2 += a; cr2 += b;
                assert!(falcon1024::verify(&msg, &sig, &pk2));
            }
        }
        println!("bl={} p={}/65536: 512: norm retries {} compress retries {} per 200 | 1024: {} {} per 60 | {:?}", bl, p, nr, cr, nr2, cr2, t.elapsed());
        let _ = bytes;
    }
}
