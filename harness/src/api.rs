//! Uniform access to the two variants of the library under test.

use falcon_rust::{falcon1024, falcon512};

#[derive(Clone)]
pub enum Sk {
    F512(falcon512::SecretKey),
    F1024(falcon1024::SecretKey),
}

#[derive(Clone)]
pub enum Pk {
    F512(falcon512::PublicKey),
    F1024(falcon1024::PublicKey),
}

#[derive(Clone)]
pub enum Sig {
    F512(falcon512::Signature),
    F1024(falcon1024::Signature),
}

pub fn keygen(n: usize, seed: [u8; 32]) -> (Sk, Pk) {
    match n {
        512 => {
            let (s, p) = falcon512::keygen(seed);
            (Sk::F512(s), Pk::F512(p))
        }
        1024 => {
            let (s, p) = falcon1024::keygen(seed);
            (Sk::F1024(s), Pk::F1024(p))
        }
        _ => panic!("harness: n must be 512 or 1024"),
    }
}

/// A key pair from the operating system's randomness: `SecretKey::generate()` and the public key
/// derived from it.
pub fn generate(n: usize) -> (Sk, Pk) {
    match n {
        512 => {
            let s = falcon512::SecretKey::generate();
            let p = falcon512::PublicKey::from_secret_key(&s);
            (Sk::F512(s), Pk::F512(p))
        }
        1024 => {
            let s = falcon1024::SecretKey::generate();
            let p = falcon1024::PublicKey::from_secret_key(&s);
            (Sk::F1024(s), Pk::F1024(p))
        }
        _ => panic!("harness: n must be 512 or 1024"),
    }
}

/// `sign` exactly as a caller gets it: the signer draws from `thread_rng` with no scripted source
/// installed. Can hang if the code under test can.
pub fn sign_unbounded(msg: &[u8], sk: &Sk) -> Sig {
    match sk {
        Sk::F512(s) => Sig::F512(falcon512::sign(msg, s)),
        Sk::F1024(s) => Sig::F1024(falcon1024::sign(msg, s)),
    }
}

/// `sign` drawing from `thread_rng` through a byte budget (see `util::Budget`): a call that would
/// never return panics instead.
pub fn sign(msg: &[u8], sk: &Sk) -> Sig {
    sign_with(msg, sk, Box::new(rand::thread_rng()))
}

/// Sign with the signer's randomness replaced by `rng` (verif-hooks), under the byte budget.
pub fn sign_with(msg: &[u8], sk: &Sk, rng: Box<dyn rand::RngCore>) -> Sig {
    falcon_rust::verif_hooks::with_sign_rng(Box::new(crate::util::Budget::new(rng)), || sign_unbounded(msg, sk))
}

pub fn verify(msg: &[u8], sig: &Sig, pk: &Pk) -> bool {
    match (sig, pk) {
        (Sig::F512(s), Pk::F512(p)) => falcon512::verify(msg, s, p),
        (Sig::F1024(s), Pk::F1024(p)) => falcon1024::verify(msg, s, p),
        _ => panic!("harness: variant mismatch"),
    }
}

impl Sk {
    pub fn n(&self) -> usize {
        match self {
            Sk::F512(_) => 512,
            Sk::F1024(_) => 1024,
        }
    }
    pub fn to_bytes(&self) -> Vec<u8> {
        match self {
            Sk::F512(s) => s.to_bytes(),
            Sk::F1024(s) => s.to_bytes(),
        }
    }
    pub fn from_bytes(n: usize, b: &[u8]) -> Result<Sk, String> {
        match n {
            512 => falcon512::SecretKey::from_bytes(b).map(Sk::F512).map_err(|e| format!("{:?}", e)),
            1024 => falcon1024::SecretKey::from_bytes(b).map(Sk::F1024).map_err(|e| format!("{:?}", e)),
            _ => panic!("harness: n must be 512 or 1024"),
        }
    }
    /// [g, -f, G, -F]
    pub fn basis(&self) -> [Vec<i16>; 4] {
        match self {
            Sk::F512(s) => s.verif_basis(),
            Sk::F1024(s) => s.verif_basis(),
        }
    }
    /// (f, g, F, G) as i64
    pub fn fg(&self) -> (Vec<i64>, Vec<i64>, Vec<i64>, Vec<i64>) {
        let [g, mf, cg, mcf] = self.basis();
        let neg = |v: &Vec<i16>| v.iter().map(|&x| -(x as i64)).collect::<Vec<i64>>();
        let pos = |v: &Vec<i16>| v.iter().map(|&x| x as i64).collect::<Vec<i64>>();
        (neg(&mf), pos(&g), neg(&mcf), pos(&cg))
    }
    pub fn leaves(&self) -> Vec<f64> {
        match self {
            Sk::F512(s) => s.verif_tree_leaves(),
            Sk::F1024(s) => s.verif_tree_leaves(),
        }
    }
    pub fn same_as(&self, other: &Sk) -> bool {
        match (self, other) {
            (Sk::F512(a), Sk::F512(b)) => a == b,
            (Sk::F1024(a), Sk::F1024(b)) => a == b,
            _ => false,
        }
    }
    pub fn public(&self) -> Pk {
        match self {
            Sk::F512(s) => Pk::F512(falcon512::PublicKey::from_secret_key(s)),
            Sk::F1024(s) => Pk::F1024(falcon1024::PublicKey::from_secret_key(s)),
        }
    }
}

impl Pk {
    pub fn to_bytes(&self) -> Vec<u8> {
        match self {
            Pk::F512(p) => p.to_bytes(),
            Pk::F1024(p) => p.to_bytes(),
        }
    }
    pub fn from_bytes(n: usize, b: &[u8]) -> Result<Pk, String> {
        match n {
            512 => falcon512::PublicKey::from_bytes(b).map(Pk::F512).map_err(|e| format!("{:?}", e)),
            1024 => falcon1024::PublicKey::from_bytes(b).map(Pk::F1024).map_err(|e| format!("{:?}", e)),
            _ => panic!("harness: n must be 512 or 1024"),
        }
    }
    pub fn same_as(&self, other: &Pk) -> bool {
        match (self, other) {
            (Pk::F512(a), Pk::F512(b)) => a == b,
            (Pk::F1024(a), Pk::F1024(b)) => a == b,
            _ => false,
        }
    }
}

impl Sig {
    pub fn to_bytes(&self) -> Vec<u8> {
        match self {
            Sig::F512(s) => s.to_bytes(),
            Sig::F1024(s) => s.to_bytes(),
        }
    }
    pub fn from_bytes(n: usize, b: &[u8]) -> Result<Sig, String> {
        match n {
            512 => falcon512::Signature::from_bytes(b).map(Sig::F512).map_err(|e| format!("{:?}", e)),
            1024 => falcon1024::Signature::from_bytes(b).map(Sig::F1024).map_err(|e| format!("{:?}", e)),
            _ => panic!("harness: n must be 512 or 1024"),
        }
    }
    pub fn same_as(&self, other: &Sig) -> bool {
        match (self, other) {
            (Sig::F512(a), Sig::F512(b)) => a == b,
            (Sig::F1024(a), Sig::F1024(b)) => a == b,
            _ => false,
        }
    }
}

/// Keys generated once per process from VERIF_SEED, shared by the generators that need honest
/// material (generated in parallel at first use).
pub struct Pool {
    pub keys: Vec<(usize, [u8; 32], Sk, Pk)>,
}

pub fn make_pool(seed: u64, n512: usize, n1024: usize) -> Pool {
    let specs: Vec<(usize, [u8; 32])> = (0..n512)
        .map(|i| (512usize, crate::util::seed32(seed ^ crate::util::mix(0x512000 + i as u64))))
        .chain((0..n1024).map(|i| (1024usize, crate::util::seed32(seed ^ crate::util::mix(0x1024000 + i as u64)))))
        .collect();
    let keys = std::thread::scope(|sc| {
        let hs: Vec<_> = specs
            .iter()
            .map(|&(n, s)| {
                sc.spawn(move || {
                    let (sk, pk) = keygen(n, s);
                    (n, s, sk, pk)
                })
            })
            .collect();
        hs.into_iter().map(|h| h.join().expect("keygen panicked while building the key pool")).collect()
    });
    Pool { keys }
}

// ------------------------------------------------------------------ key cache

use std::collections::HashMap;
use std::sync::{Arc, Mutex, OnceLock};

pub struct Key {
    pub n: usize,
    pub seed: [u8; 32],
    pub sk: Sk,
    pub pk: Pk,
    pub sk_bytes: Vec<u8>,
    pub pk_bytes: Vec<u8>,
}

static CACHE: OnceLock<Mutex<HashMap<(usize, [u8; 32]), Arc<Key>>>> = OnceLock::new();

/// keygen(n, seed), memoised for the lifetime of the process (key generation is the expensive
/// step; cases name keys by seed so that replay files stay self-contained).
pub fn key(n: usize, seed: [u8; 32]) -> Arc<Key> {
    let cache = CACHE.get_or_init(|| Mutex::new(HashMap::new()));
    if let Some(k) = cache.lock().unwrap().get(&(n, seed)) {
        return k.clone();
    }
    let (sk, pk) = keygen(n, seed);
    let k = Arc::new(Key { n, seed, sk_bytes: sk.to_bytes(), pk_bytes: pk.to_bytes(), sk, pk });
    cache.lock().unwrap().insert((n, seed), k.clone());
    k
}

/// Generate (in parallel) and cache the keys for the given seeds.
pub fn warm(specs: &[(usize, [u8; 32])], threads: usize) {
    let next = std::sync::atomic::AtomicUsize::new(0);
    std::thread::scope(|sc| {
        for _ in 0..threads.max(1) {
            sc.spawn(|| loop {
                let i = next.fetch_add(1, std::sync::atomic::Ordering::Relaxed);
                if i >= specs.len() {
                    break;
                }
                // a panic in keygen is left to the check that owns the seed
                let _ = std::panic::catch_unwind(|| key(specs[i].0, specs[i].1));
            });
        }
    });
}

/// Deterministic list of key seeds for a run: `count` seeds derived from (VERIF_SEED, tag).
pub fn seed_list(seed: u64, tag: u64, count: usize) -> Vec<[u8; 32]> {
    (0..count).map(|i| crate::util::seed32(seed ^ crate::util::mix(tag.wrapping_mul(0x1_0000_0001).wrapping_add(i as u64)))).collect()
}

pub fn seed_hex(s: &[u8; 32]) -> crate::util::Hex {
    crate::util::Hex(s.to_vec())
}

pub fn seed_from(h: &crate::util::Hex) -> Option<[u8; 32]> {
    if h.0.len() != 32 {
        return None;
    }
    let mut s = [0u8; 32];
    s.copy_from_slice(&h.0);
    Some(s)
}
