//! Uniform access to the two variants of the library under test.

use falcon_rust::{falcon1024, falcon512};

#[derive(Clone)]
pub enum Sk {
    F512(falcon512::SecretKey),
    F1024(falcon1024::SecretKey),
}

#[derive(Clone)]
pub enum Pk {
    F512(falcon512::PublicKey),
    F1024(falcon1024::PublicKey),
}

#[derive(Clone)]
pub enum Sig {
    F512(falcon512::Signature),
    F1024(falcon1024::Signature),
}

pub fn keygen(n: usize, seed: [u8; 32]) -> (Sk, Pk) {
    match n {
        512 => {
            let (s, p) = falcon512::keygen(seed);
            (Sk::F512(s), Pk::F512(p))
        }
        1024 => {
            let (s, p) = falcon1024::keygen(seed);
            (Sk::F1024(s), Pk::F1024(p))
        }
        _ => panic!("harness: n must be 512 or 1024"),
    }
}

pub fn sign(msg: &[u8], sk: &Sk) -> Sig {
    match sk {
        Sk::F512(s) => Sig::F512(falcon512::sign(msg, s)),
        Sk::F1024(s) => Sig::F1024(falcon1024::sign(msg, s)),
    }
}

/// Sign with the signer's randomness replaced by `rng` (verif-hooks).
pub fn sign_with(msg: &[u8], sk: &Sk, rng: Box<dyn rand::RngCore>) -> Sig {
    falcon_rust::verif_hooks::with_sign_rng(rng, || sign(msg, sk))
}

pub fn verify(msg: &[u8], sig: &Sig, pk: &Pk) -> bool {
    match (sig, pk) {
        (Sig::F512(s), Pk::F512(p)) => falcon512::verify(msg, s, p),
        (Sig::F1024(s), Pk::F1024(p)) => falcon1024::verify(msg, s, p),
        _ => panic!("harness: variant mismatch"),
    }
}

impl Sk {
    pub fn n(&self) -> usize {
        match self {
            Sk::F512(_) => 512,
            Sk::F1024(_) => 1024,
        }
    }
    pub fn to_bytes(&self) -> Vec<u8> {
        match self {
            Sk::F512(s) => s.to_bytes(),
            Sk::F1024(s) => s.to_bytes(),
        }
    }
    pub fn from_bytes(n: usize, b: &[u8]) -> Result<Sk, String> {
        match n {
            512 => falcon512::SecretKey::from_bytes(b).map(Sk::F512).map_err(|e| format!("{:?}", e)),
            1024 => falcon1024::SecretKey::from_bytes(b).map(Sk::F1024).map_err(|e| format!("{:?}", e)),
            _ => panic!("harness: n must be 512 or 1024"),
        }
    }
    /// [g, -f, G, -F]
    pub fn basis(&self) -> [Vec<i16>; 4] {
        match self {
            Sk::F512(s) => s.verif_basis(),
            Sk::F1024(s) => s.verif_basis(),
        }
    }
    /// (f, g, F, G) as i64
    pub fn fg(&self) -> (Vec<i64>, Vec<i64>, Vec<i64>, Vec<i64>) {
        let [g, mf, cg, mcf] = self.basis();
        let neg = |v: &Vec<i16>| v.iter().map(|&x| -(x as i64)).collect::<Vec<i64>>();
        let pos = |v: &Vec<i16>| v.iter().map(|&x| x as i64).collect::<Vec<i64>>();
        (neg(&mf), pos(&g), neg(&mcf), pos(&cg))
    }
    pub fn leaves(&self) -> Vec<f64> {
        match self {
            Sk::F512(s) => s.verif_tree_leaves(),
            Sk::F1024(s) => s.verif_tree_leaves(),
        }
    }
    pub fn same_as(&self, other: &Sk) -> bool {
        match (self, other) {
            (Sk::F512(a), Sk::F512(b)) => a == b,
            (Sk::F1024(a), Sk::F1024(b)) => a == b,
            _ => false,
        }
    }
    pub fn public(&self) -> Pk {
        match self {
            Sk::F512(s) => Pk::F512(falcon512::PublicKey::from_secret_key(s)),
            Sk::F1024(s) => Pk::F1024(falcon1024::PublicKey::from_secret_key(s)),
        }
    }
}

impl Pk {
    pub fn to_bytes(&self) -> Vec<u8> {
        match self {
            Pk::F512(p) => p.to_bytes(),
            Pk::F1024(p) => p.to_bytes(),
        }
    }
    pub fn from_bytes(n: usize, b: &[u8]) -> Result<Pk, String> {
        match n {
            512 => falcon512::PublicKey::from_bytes(b).map(Pk::F512).map_err(|e| format!("{:?}", e)),
            1024 => falcon1024::PublicKey::from_bytes(b).map(Pk::F1024).map_err(|e| format!("{:?}", e)),
            _ => panic!("harness: n must be 512 or 1024"),
        }
    }
    pub fn same_as(&self, other: &Pk) -> bool {
        match (self, other) {
            (Pk::F512(a), Pk::F512(b)) => a == b,
            (Pk::F1024(a), Pk::F1024(b)) => a == b,
            _ => false,
        }
    }
}

impl Sig {
    pub fn to_bytes(&self) -> Vec<u8> {
        match self {
            Sig::F512(s) => s.to_bytes(),
            Sig::F1024(s) => s.to_bytes(),
        }
    }
    pub fn from_bytes(n: usize, b: &[u8]) -> Result<Sig, String> {
        match n {
            512 => falcon512::Signature::from_bytes(b).map(Sig::F512).map_err(|e| format!("{:?}", e)),
            1024 => falcon1024::Signature::from_bytes(b).map(Sig::F1024).map_err(|e| format!("{:?}", e)),
            _ => panic!("harness: n must be 512 or 1024"),
        }
    }
    pub fn same_as(&self, other: &Sig) -> bool {
        match (self, other) {
            (Sig::F512(a), Sig::F512(b)) => a == b,
            (Sig::F1024(a), Sig::F1024(b)) => a == b,
            _ => false,
        }
    }
}

/// Keys generated once per process from VERIF_SEED, shared by the generators that need honest
/// material (generated in parallel at first use).
pub struct Pool {
    pub keys: Vec<(usize, [u8; 32], Sk, Pk)>,
}

pub fn make_pool(seed: u64, n512: usize, n1024: usize) -> Pool {
    let specs: Vec<(usize, [u8; 32])> = (0..n512)
        .map(|i| (512usize, crate::util::seed32(seed ^ crate::util::mix(0x512000 + i as u64))))
        .chain((0..n1024).map(|i| (1024usize, crate::util::seed32(seed ^ crate::util::mix(0x1024000 + i as u64)))))
        .collect();
    let keys = std::thread::scope(|sc| {
        let hs: Vec<_> = specs
            .iter()
            .map(|&(n, s)| {
                sc.spawn(move || {
                    let (sk, pk) = keygen(n, s);
                    (n, s, sk, pk)
                })
            })
            .collect();
        hs.into_iter().map(|h| h.join().expect("keygen panicked while building the key pool")).collect()
    });
    Pool { keys }
}
