//! Generic driver: generated search with proptest against an oracle, on a pool of workers, with
//! shrinking, replay files, a corpus replay tier, known-finding handling and evidence output.

use std::collections::{BTreeMap, HashSet};
use std::panic::{catch_unwind, AssertUnwindSafe};
use std::path::{Path, PathBuf};
use std::sync::atomic::{AtomicBool, Ordering};
use std::sync::Mutex;
use std::time::Instant;

use proptest::strategy::{BoxedStrategy, Strategy};
use proptest::test_runner::{Config, RngAlgorithm, RngSeed, TestCaseError, TestError, TestRunner};
use serde::{de::DeserializeOwned, Serialize};
use serde_json::{json, Value};

use crate::util::{fnv, mix};

#[derive(Clone, Copy, PartialEq, Eq, Debug)]
pub enum Tier {
    Quick,
    Thorough,
}

impl Tier {
    pub fn name(&self) -> &'static str {
        match self {
            Tier::Quick => "quick",
            Tier::Thorough => "thorough",
        }
    }
    /// pick(q, t)
    pub fn pick<T>(&self, q: T, t: T) -> T {
        match self {
            Tier::Quick => q,
            Tier::Thorough => t,
        }
    }
}

pub struct Env {
    pub prop: &'static str,
    pub tier: Tier,
    pub seed: u64,
    pub workers: usize,
    pub verif_dir: PathBuf,
    pub known: Vec<KnownFinding>,
    /// replay mode: failures are reported with full detail
    pub strict_replay: bool,
}

#[derive(Clone, Debug)]
pub struct KnownFinding {
    pub property: String,
    pub key: String,
    pub text: String,
}

pub fn load_known(verif_dir: &Path) -> Vec<KnownFinding> {
    let mut out = vec![];
    if let Ok(s) = std::fs::read_to_string(verif_dir.join("KNOWN_FINDINGS.txt")) {
        for line in s.lines() {
            let line = line.trim();
            // known: property=<id> key=<key> <what fails>
            if let Some(rest) = line.strip_prefix("known:") {
                let mut property = String::new();
                let mut key = String::new();
                let mut text = vec![];
                for tok in rest.split_whitespace() {
                    if let Some(p) = tok.strip_prefix("property=") {
                        property = p.to_string();
                    } else if let Some(k) = tok.strip_prefix("key=") {
                        key = k.to_string();
                    } else {
                        text.push(tok);
                    }
                }
                if !property.is_empty() && !key.is_empty() {
                    out.push(KnownFinding { property, key, text: text.join(" ") });
                }
            }
        }
    }
    out
}

/// A violated oracle. `key` identifies the root cause narrowly enough for KNOWN_FINDINGS.txt.
#[derive(Clone, Debug)]
pub struct Fail {
    pub key: String,
    pub msg: String,
    /// a smaller case (in the sub-check's replay format) that fails the same way, when the
    /// check itself can name one (e.g. one element of an enumerated row)
    pub minimal: Option<Value>,
    /// name of the sub-check whose replay format `minimal` uses (default: the failing one)
    pub minimal_sub: Option<&'static str>,
    /// the failure was seen on a thread restricted to this many CPUs (0 = unrestricted)
    pub cpus: usize,
}

impl Fail {
    pub fn new(key: impl Into<String>, msg: impl Into<String>) -> Self {
        Fail { key: key.into(), msg: msg.into(), minimal: None, minimal_sub: None, cpus: 0 }
    }
    pub fn with_minimal(mut self, v: Value) -> Self {
        self.minimal = Some(v);
        self
    }
    pub fn into_sub(mut self, sub: &'static str) -> Self {
        self.minimal_sub = Some(sub);
        self
    }
}

macro_rules! ensure {
    ($cond:expr, $key:expr, $($arg:tt)*) => {
        if !($cond) {
            return Err($crate::engine::Fail::new($key, format!($($arg)*)));
        }
    };
}

/// Counters collected while checking cases.
#[derive(Default)]
pub struct Stats {
    pub evaluations: u64,
    pub counters: BTreeMap<String, u64>,
    pub nontrivial: HashSet<u64>,
    /// non-trivial cases that are distinct by construction (complete enumerations)
    pub nontrivial_enumerated: u64,
    pub samples: BTreeMap<String, Vec<Value>>,
    pub floats: BTreeMap<String, (f64, f64)>,
}

impl Stats {
    pub fn count(&mut self, key: &str) {
        *self.counters.entry(key.to_string()).or_insert(0) += 1;
    }
    pub fn add(&mut self, key: &str, n: u64) {
        *self.counters.entry(key.to_string()).or_insert(0) += n;
    }
    pub fn nontrivial<T: std::hash::Hash>(&mut self, t: &T) {
        self.nontrivial.insert(crate::util::hash_of(t));
    }
    /// keep up to two samples per label
    pub fn sample(&mut self, label: &str, f: impl FnOnce() -> Value) {
        let e = self.samples.entry(label.to_string()).or_default();
        if e.len() < 2 {
            e.push(f());
        }
    }
    /// track the minimum and maximum of a measured quantity
    pub fn range(&mut self, key: &str, x: f64) {
        let e = self.floats.entry(key.to_string()).or_insert((x, x));
        e.0 = e.0.min(x);
        e.1 = e.1.max(x);
    }
    pub fn merge(&mut self, o: Stats) {
        self.evaluations += o.evaluations;
        for (k, v) in o.counters {
            *self.counters.entry(k).or_insert(0) += v;
        }
        self.nontrivial.extend(o.nontrivial);
        self.nontrivial_enumerated += o.nontrivial_enumerated;
        for (k, v) in o.samples {
            let e = self.samples.entry(k).or_default();
            for s in v {
                if e.len() < 2 {
                    e.push(s);
                }
            }
        }
        for (k, (lo, hi)) in o.floats {
            let e = self.floats.entry(k).or_insert((lo, hi));
            e.0 = e.0.min(lo);
            e.1 = e.1.max(hi);
        }
    }
}

/// One executable statement of (part of) a property: a generator and an oracle.
pub trait Sub: Sync {
    type Case: Clone + std::fmt::Debug + Serialize + DeserializeOwned + Send + 'static;
    fn name(&self) -> &'static str;
    fn strategy(&self, env: &Env) -> BoxedStrategy<Self::Case>;
    /// The oracle. Must be a pure function of the case (and of the code under test).
    fn check(&self, case: &Self::Case, st: &mut Stats) -> Result<(), Fail>;
    fn max_shrink_iters(&self) -> u32 {
        4096
    }
    fn workers(&self, env: &Env) -> usize {
        env.workers
    }
    /// how many enumerated cases a worker takes at a time (1 for expensive cases)
    fn batch(&self) -> usize {
        256
    }
    /// May the pool run two of this sub-check's workers on threads restricted to one and to two
    /// CPUs (so that a sixteenth of the cases each see `available_parallelism()` = 1 and = 2)?
    /// Only for sub-checks whose cases do not fan out over threads themselves.
    fn restrictable(&self) -> bool {
        false
    }
}

thread_local! {
    /// number of CPUs the current pool worker is restricted to (0 = not restricted)
    static WORKER_CPUS: std::cell::Cell<usize> = const { std::cell::Cell::new(0) };
}

/// Called at the start of pool worker `w`: workers 0 and 1 of a restrictable sub-check confine
/// themselves to one CPU and to two CPUs.
fn restrict_worker<S: Sub>(sub: &S, w: usize, workers: usize) {
    if sub.restrictable() && workers >= 8 && w < 2 && crate::util::restrict_this_thread(w + 1, 2 * w) {
        WORKER_CPUS.with(|c| c.set(w + 1));
    }
}

fn note_restricted(stats: &mut Stats) {
    let k = WORKER_CPUS.with(|c| c.get());
    if k > 0 && stats.evaluations > 0 {
        stats.add(&format!("cases_run_on_a_worker_restricted_to_{}_cpu", k), stats.evaluations);
    }
}

pub struct Violation {
    pub sub: String,
    pub key: String,
    pub msg: String,
    pub case: Value,
    pub replay_path: Option<PathBuf>,
}

pub struct Report {
    pub start: Instant,
    pub stats: Stats,
    pub per_sub: BTreeMap<String, (u64, u64)>,
    pub violations: Vec<Violation>,
    pub known_hits: BTreeMap<String, (String, u64)>,
    pub corpus_replayed: u64,
    pub exhaustive: bool,
    pub notes: Vec<String>,
    pub extra: BTreeMap<String, Value>,
}

impl Report {
    /// wall-clock seconds spent per sub-check (reported in the evidence, not an oracle)
    pub fn add_seconds(&mut self, name: &str, secs: f64) {
        let m = self.extra.entry("seconds_per_sub_check".into()).or_insert_with(|| json!({}));
        let old = m.get(name).and_then(|v| v.as_f64()).unwrap_or(0.0);
        m[name] = json!(((old + secs) * 10.0).round() / 10.0);
    }
    pub fn new() -> Self {
        Report {
            start: Instant::now(),
            stats: Stats::default(),
            per_sub: BTreeMap::new(),
            violations: vec![],
            known_hits: BTreeMap::new(),
            corpus_replayed: 0,
            exhaustive: false,
            notes: vec![],
            extra: BTreeMap::new(),
        }
    }
    pub fn failed(&self) -> bool {
        !self.violations.is_empty()
    }
    /// Fold in a report built concurrently (e.g. an expensive enumerated part run beside the
    /// generated search).
    pub fn merge(&mut self, o: Report) {
        self.stats.merge(o.stats);
        for (k, (e, n)) in o.per_sub {
            let x = self.per_sub.entry(k).or_insert((0, 0));
            x.0 += e;
            x.1 += n;
        }
        self.violations.extend(o.violations);
        for (k, (t, n)) in o.known_hits {
            let x = self.known_hits.entry(k).or_insert((t, 0));
            x.1 += n;
        }
        self.corpus_replayed += o.corpus_replayed;
        self.notes.extend(o.notes);
        for (k, v) in o.extra {
            if k == "seconds_per_sub_check" {
                if let Some(m) = v.as_object() {
                    for (name, secs) in m {
                        self.add_seconds(name, secs.as_f64().unwrap_or(0.0));
                    }
                }
            } else {
                self.extra.insert(k, v);
            }
        }
    }
}

// ------------------------------------------------------------------ panic capture

thread_local! {
    static LAST_PANIC: std::cell::RefCell<Option<String>> = const { std::cell::RefCell::new(None) };
    static GUARDED: std::cell::Cell<u32> = const { std::cell::Cell::new(0) };
}

pub fn install_quiet_panic_hook() {
    std::panic::set_hook(Box::new(|info| {
        let loc = info.location().map(|l| format!("{}:{}", l.file(), l.line())).unwrap_or_default();
        let msg = if let Some(s) = info.payload().downcast_ref::<&str>() {
            s.to_string()
        } else if let Some(s) = info.payload().downcast_ref::<String>() {
            s.clone()
        } else {
            "panic".to_string()
        };
        if GUARDED.with(|g| g.get()) == 0 {
            // not inside a guarded call of the code under test: a bug of the harness itself
            eprintln!("harness panic: {} at {}", msg, loc);
        }
        LAST_PANIC.with(|p| *p.borrow_mut() = Some(format!("{} at {}", msg, loc)));
    }));
}

/// Run `f`; a panic becomes `Err("<message> at <file>:<line>")`.
pub fn no_panic<T>(f: impl FnOnce() -> T) -> Result<T, String> {
    GUARDED.with(|g| g.set(g.get() + 1));
    let r = catch_unwind(AssertUnwindSafe(f));
    GUARDED.with(|g| g.set(g.get() - 1));
    match r {
        Ok(v) => Ok(v),
        Err(_) => Err(LAST_PANIC.with(|p| p.borrow_mut().take()).unwrap_or_else(|| "panic".into())),
    }
}

/// file:line of a captured panic message (for failure keys)
pub fn panic_site(msg: &str) -> String {
    let site = msg.rsplit(" at ").next().unwrap_or("?");
    let file = site.rsplit('/').next().unwrap_or(site);
    file.to_string()
}

fn checked<S: Sub>(sub: &S, case: &S::Case, st: &mut Stats) -> Result<(), Fail> {
    let r = match no_panic(|| sub.check(case, st)) {
        Ok(r) => r,
        Err(p) if p.contains(crate::util::SIGN_BUDGET_MESSAGE) => Err(Fail::new("sign:does-not-terminate", format!("sign did not return: {}", crate::util::SIGN_BUDGET_MESSAGE))),
        Err(p) => Err(Fail::new(format!("{}:panic:{}", sub.name(), panic_site(&p)), format!("panicked: {}", p))),
    };
    r.map_err(|mut f| {
        f.cpus = WORKER_CPUS.with(|c| c.get());
        f
    })
}

// ------------------------------------------------------------------ drivers

fn known_match<'a>(env: &'a Env, key: &str) -> Option<&'a KnownFinding> {
    env.known.iter().find(|k| k.property == env.prop && k.key == key)
}

fn record_violation(env: &Env, report: &mut Report, sub: &str, mut fail: Fail, case: Value, from: Option<&Path>) {
    let sub = if fail.minimal.is_some() { fail.minimal_sub.unwrap_or(sub) } else { sub };
    let case = fail.minimal.take().unwrap_or(case);
    if let Some(k) = known_match(env, &fail.key) {
        let e = report.known_hits.entry(k.key.clone()).or_insert((k.text.clone(), 0));
        e.1 += 1;
        return;
    }
    let replay_path = match from {
        Some(p) => Some(p.to_path_buf()),
        None => {
            let dir = env.verif_dir.join("replays").join(env.prop);
            let _ = std::fs::create_dir_all(&dir);
            let mut body = json!({"property": env.prop, "sub": sub, "key": fail.key, "message": fail.msg, "case": case});
            if fail.cpus > 0 {
                // seen on a worker confined to this many CPUs: the replay confines itself likewise
                body["cpus"] = json!(fail.cpus);
            }
            let text = serde_json::to_string_pretty(&body).unwrap();
            let p = dir.join(format!("{}-{:016x}.json", sub, fnv(text.as_bytes())));
            let _ = std::fs::write(&p, text);
            Some(p)
        }
    };
    if report.violations.iter().any(|v| v.sub == sub && v.key == fail.key && v.case == case) {
        return; // two workers shrank to the same case
    }
    report.violations.push(Violation { sub: sub.to_string(), key: fail.key, msg: fail.msg, case, replay_path });
}

/// Generated search: `cases` cases split over the workers, each worker its own proptest runner
/// with a seed derived from (VERIF_SEED, sub name, worker index). The first failure stops the
/// others; the failing worker shrinks.
pub fn drive<S: Sub>(env: &Env, sub: &S, cases: u64, report: &mut Report) {
    let started = Instant::now();
    let workers = sub.workers(env).max(1).min(cases.max(1) as usize);
    let share = (cases + workers as u64 - 1) / workers as u64;
    let stop = AtomicBool::new(false);
    let results: Mutex<Vec<(Stats, Option<(Fail, S::Case)>, BTreeMap<String, (String, u64)>)>> = Mutex::new(vec![]);
    std::thread::scope(|scope| {
        for w in 0..workers {
            let stop = &stop;
            let results = &results;
            scope.spawn(move || {
                let strategy = sub.strategy(env);
                restrict_worker(sub, w, workers);
                let seed = mix(env.seed ^ mix(fnv(sub.name().as_bytes()) ^ mix(w as u64 + 1)));
                let config = Config {
                    cases: share as u32,
                    failure_persistence: None,
                    rng_algorithm: RngAlgorithm::ChaCha,
                    rng_seed: RngSeed::Fixed(seed),
                    max_shrink_iters: sub.max_shrink_iters(),
                    max_global_rejects: 1 << 20,
                    ..Config::default()
                };
                let mut runner = TestRunner::new(config);
                struct Local {
                    stats: Stats,
                    scratch: Stats,
                    failed: bool,
                    known: BTreeMap<String, (String, u64)>,
                    last_fail: Option<Fail>,
                }
                let local = std::cell::RefCell::new(Local {
                    stats: Stats::default(),
                    scratch: Stats::default(),
                    failed: false,
                    known: BTreeMap::new(),
                    last_fail: None,
                });
                let res = runner.run(&strategy, |case| {
                    let mut guard = local.borrow_mut();
                    let l = &mut *guard;
                    if !l.failed && stop.load(Ordering::Relaxed) {
                        return Ok(());
                    }
                    // the closure is re-run while shrinking: stop counting at the first failure
                    let st = if l.failed { &mut l.scratch } else { &mut l.stats };
                    st.evaluations += 1;
                    match checked(sub, &case, st) {
                        Ok(()) => Ok(()),
                        Err(f) => {
                            if let Some(k) = known_match(env, &f.key) {
                                // a listed finding: excluded, counted, and the search continues
                                if !l.failed {
                                    let e = l.known.entry(k.key.clone()).or_insert((k.text.clone(), 0));
                                    e.1 += 1;
                                }
                                return Ok(());
                            }
                            l.failed = true;
                            stop.store(true, Ordering::Relaxed);
                            let msg = f.msg.clone();
                            l.last_fail = Some(f);
                            Err(TestCaseError::fail(msg))
                        }
                    }
                });
                let Local { mut stats, known, last_fail, .. } = local.into_inner();
                note_restricted(&mut stats);
                let failure = match res {
                    Ok(()) => None,
                    Err(TestError::Fail(_, case)) => {
                        // re-run the shrunk case to get its own key / message
                        let mut tmp = Stats::default();
                        let f = checked(sub, &case, &mut tmp).err().or(last_fail).unwrap_or(Fail::new("unknown", "failure did not reproduce"));
                        Some((f, case))
                    }
                    Err(TestError::Abort(reason)) => {
                        eprintln!("harness: proptest aborted in {}: {}", sub.name(), reason);
                        std::process::exit(2);
                    }
                };
                note_restricted(&mut stats);
                results.lock().unwrap().push((stats, failure, known));
            });
        }
    });
    let mut evals = 0;
    let before_nt = report.stats.nontrivial.len() as u64 + report.stats.nontrivial_enumerated;
    for (stats, failure, known) in results.into_inner().unwrap() {
        evals += stats.evaluations;
        report.stats.merge(stats);
        for (k, (t, n)) in known {
            let e = report.known_hits.entry(k).or_insert((t, 0));
            e.1 += n;
        }
        if let Some((fail, case)) = failure {
            let v = serde_json::to_value(&case).unwrap();
            record_violation(env, report, sub.name(), fail, v, None);
        }
    }
    let after_nt = report.stats.nontrivial.len() as u64 + report.stats.nontrivial_enumerated;
    report.add_seconds(sub.name(), started.elapsed().as_secs_f64());
    let e = report.per_sub.entry(sub.name().to_string()).or_insert((0, 0));
    e.0 += evals;
    e.1 += after_nt - before_nt;
}

/// Enumerated search: every case of an explicit iterator (used for complete enumerations and
/// for hand-built edge cases). Chunks are distributed over the workers.
pub fn drive_enumerated<S: Sub, I>(env: &Env, sub: &S, cases: I, report: &mut Report)
where
    I: Iterator<Item = S::Case> + Send,
{
    let started = Instant::now();
    let workers = sub.workers(env).max(1);
    let stop = AtomicBool::new(false);
    let source = Mutex::new(cases);
    let results: Mutex<Vec<(Stats, Option<(Fail, S::Case)>, BTreeMap<String, (String, u64)>)>> = Mutex::new(vec![]);
    std::thread::scope(|scope| {
        for w in 0..workers {
            let stop = &stop;
            let source = &source;
            let results = &results;
            scope.spawn(move || {
                restrict_worker(sub, w, workers);
                let mut stats = Stats::default();
                let mut failure = None;
                let mut known: BTreeMap<String, (String, u64)> = BTreeMap::new();
                'outer: loop {
                    let batch: Vec<S::Case> = {
                        let mut it = source.lock().unwrap();
                        let mut b = Vec::with_capacity(sub.batch());
                        for _ in 0..sub.batch().max(1) {
                            match it.next() {
                                Some(c) => b.push(c),
                                None => break,
                            }
                        }
                        b
                    };
                    if batch.is_empty() || stop.load(Ordering::Relaxed) {
                        break;
                    }
                    for case in batch {
                        stats.evaluations += 1;
                        if let Err(f) = checked(sub, &case, &mut stats) {
                            if let Some(k) = known_match(env, &f.key) {
                                let e = known.entry(k.key.clone()).or_insert((k.text.clone(), 0));
                                e.1 += 1;
                                continue;
                            }
                            stop.store(true, Ordering::Relaxed);
                            failure = Some((f, case));
                            break 'outer;
                        }
                    }
                }
                results.lock().unwrap().push((stats, failure, known));
            });
        }
    });
    let mut evals = 0;
    let before_nt = report.stats.nontrivial.len() as u64 + report.stats.nontrivial_enumerated;
    for (stats, failure, known) in results.into_inner().unwrap() {
        evals += stats.evaluations;
        report.stats.merge(stats);
        for (k, (t, n)) in known {
            let e = report.known_hits.entry(k).or_insert((t, 0));
            e.1 += n;
        }
        if let Some((fail, case)) = failure {
            let v = serde_json::to_value(&case).unwrap();
            record_violation(env, report, sub.name(), fail, v, None);
        }
    }
    let after_nt = report.stats.nontrivial.len() as u64 + report.stats.nontrivial_enumerated;
    report.add_seconds(sub.name(), started.elapsed().as_secs_f64());
    let e = report.per_sub.entry(sub.name().to_string()).or_insert((0, 0));
    e.0 += evals;
    e.1 += after_nt - before_nt;
}

/// Type-erased view of a `Sub`, used for replaying stored cases by name.
pub trait DynSub: Sync {
    fn dyn_name(&self) -> &'static str;
    fn replay_value(&self, case: &Value, st: &mut Stats) -> Result<(), Fail>;
}

impl<S: Sub> DynSub for S {
    fn dyn_name(&self) -> &'static str {
        self.name()
    }
    fn replay_value(&self, case: &Value, st: &mut Stats) -> Result<(), Fail> {
        let c: S::Case = serde_json::from_value(case.clone())
            .map_err(|e| Fail::new("harness:bad-replay", format!("cannot parse case for {}: {}", self.name(), e)))?;
        st.evaluations += 1;
        checked(self, &c, st)
    }
}

/// Replay one stored file ({"property","sub","case"}) through the matching sub-check.
pub fn replay_file(env: &Env, subs: &[&dyn DynSub], path: &Path, report: &mut Report) -> Result<(), String> {
    let text = std::fs::read_to_string(path).map_err(|e| format!("{}: {}", path.display(), e))?;
    let v: Value = serde_json::from_str(&text).map_err(|e| format!("{}: {}", path.display(), e))?;
    let subname = v.get("sub").and_then(|s| s.as_str()).ok_or("replay file has no \"sub\"")?;
    let case = v.get("case").ok_or("replay file has no \"case\"")?;
    let sub = subs.iter().find(|s| s.dyn_name() == subname).ok_or(format!("no sub-check named {}", subname))?;
    let mut st = Stats::default();
    let cpus = v.get("cpus").and_then(|c| c.as_u64()).unwrap_or(0) as usize;
    let r = if cpus > 0 {
        // the failure was seen on a worker confined to `cpus` CPUs: replay it the same way
        std::thread::scope(|sc| {
            sc.spawn(|| {
                if crate::util::restrict_this_thread(cpus, 0) {
                    WORKER_CPUS.with(|c| c.set(cpus));
                }
                sub.replay_value(case, &mut st)
            })
            .join()
            .unwrap_or_else(|_| Err(Fail::new("harness:replay", "the replay thread panicked")))
        })
    } else {
        sub.replay_value(case, &mut st)
    };
    report.stats.merge(st);
    report.corpus_replayed += 1;
    let e = report.per_sub.entry(format!("{}(replay)", subname)).or_insert((0, 0));
    e.0 += 1;
    if let Err(f) = r {
        if f.key == "harness:bad-replay" {
            return Err(f.msg);
        }
        if env.strict_replay {
            println!("replay {}: FAIL [{}] {}", path.display(), f.key, f.msg);
        }
        record_violation(env, report, subname, f, case.clone(), Some(path));
    } else if env.strict_replay {
        println!("replay {}: ok", path.display());
    }
    Ok(())
}

/// The replay tier: every committed file in corpus/<ID>/*.json.
pub fn replay_corpus(env: &Env, subs: &[&dyn DynSub], report: &mut Report) {
    let started = Instant::now();
    let dir = env.verif_dir.join("corpus").join(env.prop);
    let mut files: Vec<PathBuf> = match std::fs::read_dir(&dir) {
        Ok(rd) => rd.filter_map(|e| e.ok()).map(|e| e.path()).filter(|p| p.extension().map(|x| x == "json").unwrap_or(false)).collect(),
        Err(_) => vec![],
    };
    files.sort();
    // files are independent: replay them on the worker pool, merge in file order
    let next = std::sync::atomic::AtomicUsize::new(0);
    let done: Mutex<Vec<(usize, Result<Report, String>)>> = Mutex::new(vec![]);
    std::thread::scope(|scope| {
        for _ in 0..env.workers.max(1).min(files.len().max(1)) {
            scope.spawn(|| loop {
                let i = next.fetch_add(1, Ordering::Relaxed);
                if i >= files.len() {
                    break;
                }
                let mut r = Report::new();
                let res = replay_file(env, subs, &files[i], &mut r).map(|_| r);
                done.lock().unwrap().push((i, res));
            });
        }
    });
    let mut done = done.into_inner().unwrap();
    done.sort_by_key(|(i, _)| *i);
    for (_, res) in done {
        match res {
            Ok(r) => report.merge(r),
            Err(e) => {
                eprintln!("harness: corpus file unusable: {}", e);
                std::process::exit(2);
            }
        }
    }
    report.add_seconds("corpus_replay", started.elapsed().as_secs_f64());
}

// ------------------------------------------------------------------ evidence and exit

pub struct Meta {
    pub rule: &'static str,
    pub assumptions: &'static [&'static str],
}

pub fn finish(env: &Env, report: Report, meta: &Meta) -> i32 {
    let wall = report.start.elapsed().as_secs_f64();
    let distinct = report.stats.nontrivial.len() as u64 + report.stats.nontrivial_enumerated;
    let mut samples: Vec<Value> = vec![];
    for (label, vs) in &report.stats.samples {
        for v in vs {
            samples.push(json!({"class": label, "case": v}));
        }
    }
    let ranges: BTreeMap<String, Value> = report.stats.floats.iter().map(|(k, (lo, hi))| (k.clone(), json!({"min": lo, "max": hi}))).collect();
    let per_sub: BTreeMap<String, Value> =
        report.per_sub.iter().map(|(k, (e, n))| (k.clone(), json!({"evaluations": e, "distinct_nontrivial": n}))).collect();
    let known: Vec<Value> = report.known_hits.iter().map(|(k, (t, n))| json!({"key": k, "what": t, "cases_excluded": n})).collect();
    let mut coverage = json!({
        "evaluations": report.stats.evaluations,
        "distinct_nontrivial": distinct,
        "rule": meta.rule,
        "samples": samples,
        "exhaustive": report.exhaustive,
        "classes": report.stats.counters,
        "measured_ranges": ranges,
        "sub_checks": per_sub,
        "corpus_files_replayed": report.corpus_replayed,
        "known_findings_excluded": known,
        "workers": env.workers,
        "notes": report.notes,
    });
    for (k, v) in &report.extra {
        coverage[k] = v.clone();
    }
    let evidence = json!({
        "property_id": env.prop,
        "tier": env.tier.name(),
        "seed": env.seed,
        "level": "exploration",
        "coverage": coverage,
        "assumptions": meta.assumptions,
        "wall_s": wall,
        "violations": report.violations.len(),
    });
    if !env.strict_replay {
        let dir = env.verif_dir.join("evidence");
        let _ = std::fs::create_dir_all(&dir);
        let path = dir.join(format!("{}.json", env.prop));
        if let Err(e) = std::fs::write(&path, serde_json::to_string_pretty(&evidence).unwrap()) {
            eprintln!("harness: cannot write evidence: {}", e);
            return 2;
        }
    }
    for (k, (t, n)) in &report.known_hits {
        println!("KNOWN-FINDING: property={} key={} {} ({} generated cases excluded)", env.prop, k, t, n);
    }
    for v in &report.violations {
        if v.key.starts_with("harness:") {
            eprintln!("HARNESS-ERROR [{}] {} :: {} (case: {})", v.sub, v.key, truncate(&v.msg, 600), v.replay_path.as_ref().map(|p| p.display().to_string()).unwrap_or_default());
            continue;
        }
        println!("  [{}] {} :: {}", v.sub, v.key, truncate(&v.msg, 600));
        println!(
            "VIOLATION property={} replay={}",
            env.prop,
            v.replay_path.as_ref().map(|p| p.display().to_string()).unwrap_or_else(|| "-".into())
        );
    }
    println!(
        "{} {} seed={} evaluations={} distinct_nontrivial={} corpus={} violations={} wall={:.1}s",
        env.prop,
        env.tier.name(),
        env.seed,
        report.stats.evaluations,
        distinct,
        report.corpus_replayed,
        report.violations.len(),
        wall
    );
    if report.violations.iter().any(|v| v.key.starts_with("harness:")) {
        eprintln!("harness error (oracle or replay problem), not a verdict on the property");
        return 2;
    }
    if report.violations.is_empty() {
        0
    } else {
        1
    }
}

fn truncate(s: &str, n: usize) -> String {
    if s.len() <= n {
        s.to_string()
    } else {
        let mut end = n;
        while !s.is_char_boundary(end) {
            end -= 1;
        }
        format!("{}…", &s[..end])
    }
}

/// Map a proptest index in [0, 2^16) monotonically onto [0, len).
pub fn pick_index(i: u16, len: usize) -> usize {
    ((i as usize) * len) >> 16
}

pub fn boxed<T: std::fmt::Debug, S: Strategy<Value = T> + 'static>(s: S) -> BoxedStrategy<T> {
    s.boxed()
}
