//! C09 — the integer Gaussian sampler is total and follows D_{Z,mu,sigma}; its integer building
//! blocks equal the specification's BaseSampler, ApproxExp and BerExp.

use falcon_rust::verif_hooks::samplerz as hook;
use proptest::prelude::*;
use serde::{Deserialize, Serialize};
use serde_json::json;
use std::path::Path;

use crate::engine::*;
use crate::util::{hex, ByteRng, Hex};
use refimpl::sampler::{self as model, Ber, LN2, RCDT};
use refimpl::stats;

const SIGMA_MIN_512: f64 = 1.2778336969128337;
const SIGMA_MIN_1024: f64 = 1.298280334344292;
const SIGMA_MAX: f64 = 1.8205;

// ------------------------------------------------------------------ 1. BaseSampler

#[derive(Clone, Debug, Serialize, Deserialize)]
pub struct BaseCase {
    /// the 72-bit input, big-endian, as 18 hex digits
    u: Hex,
}

pub struct Base;

fn base_case(u: u128) -> BaseCase {
    BaseCase { u: Hex(model::u72_to_bytes(u).to_vec()) }
}

impl Sub for Base {
    type Case = BaseCase;
    fn restrictable(&self) -> bool {
        true
    }
    fn name(&self) -> &'static str {
        "base_sampler"
    }
    fn strategy(&self, _env: &Env) -> BoxedStrategy<BaseCase> {
        let near = (0usize..18, -2i64..=2).prop_map(|(i, d)| (RCDT[i] as i128 + d as i128).max(0) as u128);
        let log_uniform = (0u32..72, any::<u64>(), any::<u64>()).prop_map(|(bits, a, b)| {
            let x = ((a as u128) << 64 | b as u128) & ((1u128 << 72) - 1);
            x >> (72 - bits - 1).min(71)
        });
        let uniform = (any::<u64>(), any::<u8>()).prop_map(|(a, b)| (a as u128) << 8 | b as u128);
        prop_oneof![3 => near, 4 => log_uniform, 3 => uniform, 1 => Just(0u128), 1 => Just((1u128 << 72) - 1)].prop_map(base_case).boxed()
    }
    fn check(&self, c: &BaseCase, st: &mut Stats) -> Result<(), Fail> {
        ensure!(c.u.0.len() == 9, "harness:bad-replay", "u must be 9 bytes");
        let mut bytes = [0u8; 9];
        bytes.copy_from_slice(&c.u.0);
        let u = model::u72_from_bytes(&bytes);
        let want = model::base_sampler_u(u);
        let got = hook::base_sampler(bytes) as i64;
        ensure!(got == want, "sampler:base", "BaseSampler(u = {}) = {} but the library returns {}", u, want, got);
        let near = RCDT.iter().any(|&r| (r as i128 - u as i128).abs() <= 1);
        if near {
            st.count("base_within_1_of_breakpoint");
        }
        if u < (1u128 << 40) {
            st.count("base_u_below_2^40");
        }
        if near || u < (1u128 << 40) {
            st.nontrivial(&u);
        }
        st.count(&format!("base_z0_{}", want));
        st.sample("base", || json!({"u": hex(&bytes), "z0": want}));
        Ok(())
    }
}

// ------------------------------------------------------------------ 2. ApproxExp

#[derive(Clone, Debug, Serialize, Deserialize)]
pub struct ExpCase {
    x: f64,
    ccs: f64,
}

pub struct ApproxExp;

fn ccs_strategy() -> BoxedStrategy<f64> {
    prop_oneof![
        2 => Just(1.0f64),
        4 => (1.2778336969128337f64..=SIGMA_MAX).prop_map(|s| SIGMA_MIN_512 / s),
        3 => (1.298280334344292f64..=SIGMA_MAX).prop_map(|s| SIGMA_MIN_1024 / s),
        1 => Just(1.432f64 / 1.433f64),
        2 => 0.0000001f64..=1.0,
    ]
    .boxed()
}

impl Sub for ApproxExp {
    type Case = ExpCase;
    fn restrictable(&self) -> bool {
        true
    }
    fn name(&self) -> &'static str {
        "approx_exp"
    }
    fn strategy(&self, _env: &Env) -> BoxedStrategy<ExpCase> {
        let x = prop_oneof![
            6 => 0.0f64..=LN2,
            1 => Just(0.0f64),
            1 => Just(LN2),
            1 => Just(f64::from_bits(LN2.to_bits() - 1)),
            2 => (0u32..=60, 1u64..(1u64 << 20)).prop_map(|(e, m)| ((m as f64) / (1u64 << 20) as f64 / (1u64 << e) as f64).min(LN2)),
            1 => (1u64..1000).prop_map(|k| f64::from_bits(k)), // subnormals
        ];
        (x, ccs_strategy()).prop_map(|(x, ccs)| ExpCase { x, ccs }).boxed()
    }
    fn check(&self, c: &ExpCase, st: &mut Stats) -> Result<(), Fail> {
        if !(c.x >= 0.0 && c.x <= LN2 && c.ccs > 0.0 && c.ccs <= 1.0) {
            return Ok(());
        }
        let want = model::approx_exp(c.x, c.ccs);
        let got = hook::approx_exp(c.x, c.ccs);
        ensure!(got == want, "sampler:approx_exp", "ApproxExp({:e}, {}) = {} but the library returns {} (difference {})", c.x, c.ccs, want, got, got as i128 - want as i128);
        ensure!(hook::approx_exp(c.x, c.ccs) == got, "sampler:approx_exp-not-repeatable", "a second ApproxExp({:e}, {}) right after the first gives a different result", c.x, c.ccs);
        // and the value itself approximates 2^63 * ccs * exp(-x): within 2^-45 of the scale 2^63
        let ideal = 9223372036854775808.0 * c.ccs * (-c.x).exp();
        let err = (got as f64 - ideal).abs() / 9223372036854775808.0;
        ensure!(err <= 2f64.powi(-45), "sampler:approx_exp-accuracy", "ApproxExp({:e}, {}) = {} is {:e} * 2^63 away from 2^63 ccs e^-x", c.x, c.ccs, got, err);
        st.range("approx_exp_abs_error_over_2^63", err);
        st.nontrivial(&(c.x.to_bits(), c.ccs.to_bits()));
        st.count("approx_exp");
        st.sample("approx_exp", || json!({"x": c.x, "ccs": c.ccs, "value": got}));
        Ok(())
    }
}

// ------------------------------------------------------------------ 3. BerExp

#[derive(Clone, Debug, Serialize, Deserialize)]
pub struct BerCase {
    x: f64,
    ccs: f64,
    bytes: Hex,
}

pub struct BerExp;

impl Sub for BerExp {
    type Case = BerCase;
    fn restrictable(&self) -> bool {
        true
    }
    fn name(&self) -> &'static str {
        "ber_exp"
    }
    fn strategy(&self, _env: &Env) -> BoxedStrategy<BerCase> {
        let x = prop_oneof![
            6 => 0.0f64..=12.0,
            2 => 0.0f64..=1.0,
            2 => 12.0f64..=60.0,
            3 => (0u32..=80, -2i64..=2).prop_map(|(k, d)| {
                let v = k as f64 * LN2;
                f64::from_bits((v.to_bits() as i64 + d).max(0) as u64)
            }),
            1 => Just(0.0f64),
            1 => 43.0f64..=45.0, // s around 63
        ];
        // bytes: uniform, or computed from the model so that the first d bytes tie
        let tie = (0usize..=7, prop_oneof![Just(-1i32), Just(0), Just(1), Just(-200), Just(200)], any::<[u8; 7]>());
        (x, ccs_strategy(), prop_oneof![1 => any::<[u8; 7]>().prop_map(|b| (None, b)), 3 => tie.prop_map(|(d, rel, b)| (Some((d, rel)), b))])
            .prop_map(|(x, ccs, (tie, mut bytes))| {
                let mut x = x;
                if let Some((d, rel)) = tie {
                    let s = model::s_candidates(x)[0];
                    let mut z = model::ber_exp_threshold(x, ccs, s);
                    if d == 7 && rel >= 0 {
                        // a tie on all seven bytes is decided (reject) when the eighth byte of the
                        // threshold is zero: move x by ulps until it is
                        for _ in 0..4000 {
                            if z & 0xFF == 0 {
                                break;
                            }
                            x = f64::from_bits(x.to_bits().wrapping_add(1));
                            z = model::ber_exp_threshold(x, ccs, model::s_candidates(x)[0]);
                        }
                    }
                    for k in 0..d.min(7) {
                        bytes[k] = (z >> (56 - 8 * k)) as u8;
                    }
                    if d < 7 {
                        let zb = ((z >> (56 - 8 * d)) & 0xFF) as i32;
                        bytes[d] = (zb + rel).clamp(0, 255) as u8;
                    }
                }
                BerCase { x, ccs, bytes: Hex(bytes.to_vec()) }
            })
            .boxed()
    }
    fn check(&self, c: &BerCase, st: &mut Stats) -> Result<(), Fail> {
        if !(c.x >= 0.0 && c.x.is_finite() && c.ccs > 0.0 && c.ccs <= 1.0) || c.bytes.0.len() != 7 {
            return Ok(());
        }
        let mut bytes = [0u8; 7];
        bytes.copy_from_slice(&c.bytes.0);
        let allowed = model::ber_exp_allowed(c.x, c.ccs, &bytes);
        let depth = model::tie_depth(c.x, c.ccs, &bytes);
        // a panic in here is reported by the engine with its location
        let got = hook::ber_exp(c.x, c.ccs, bytes);
        st.count(&format!("ber_tie_depth_{}", depth));
        if allowed.contains(&Ber::Undetermined) {
            // all supplied bytes tie and the threshold's eighth byte is not zero: the specification
            // would draw an eighth byte which this function does not receive; only totality is required
            st.count("ber_all_seven_bytes_tie(total_only)");
            st.nontrivial(&(c.x.to_bits(), c.ccs.to_bits(), bytes));
            return Ok(());
        }
        ensure!(hook::ber_exp(c.x, c.ccs, bytes) == got, "sampler:ber_exp-not-repeatable", "a second BerExp call with the same arguments gives a different result");
        let got_b = if got { Ber::Accept } else { Ber::Reject };
        ensure!(allowed.contains(&got_b), "sampler:ber_exp", "BerExp(x = {:e}, ccs = {}, bytes = {}) must be {:?} but the library returns {} (tie depth {})", c.x, c.ccs, hex(&bytes), allowed, got, depth);
        if allowed.len() > 1 {
            st.count("ber_two_legitimate_reductions_differ");
        }
        if depth >= 1 {
            st.nontrivial(&(c.x.to_bits(), c.ccs.to_bits(), bytes));
        }
        if depth >= 7 {
            st.count("ber_all_seven_bytes_tie_and_eighth_threshold_byte_zero(must_reject)");
        }
        if c.x / LN2 >= 63.0 {
            st.count("ber_s_ge_63");
        }
        st.sample(if depth >= 3 { "ber_deep_tie" } else { "ber" }, || json!({"x": c.x, "ccs": c.ccs, "bytes": hex(&bytes), "tie_depth": depth, "result": got}));
        Ok(())
    }
}

// ------------------------------------------------------------------ 4. SamplerZ, differential

#[derive(Clone, Debug, Serialize, Deserialize)]
pub struct ZCase {
    mu: f64,
    sigma: f64,
    sigma_min: f64,
    script: Hex,
    tail_seed: u64,
    /// a call made just before on the same thread (mu, sigma, sigma_min), result ignored: the
    /// sampler must not carry anything over from one call to the next (memoised constants)
    #[serde(default)]
    prev: Option<(f64, f64, f64)>,
}

pub struct SamplerZ;

pub fn sigma_pair() -> BoxedStrategy<(f64, f64)> {
    prop_oneof![
        4 => (SIGMA_MIN_512..=SIGMA_MAX).prop_map(|s| (s, SIGMA_MIN_512)),
        3 => (SIGMA_MIN_1024..=SIGMA_MAX).prop_map(|s| (s, SIGMA_MIN_1024)),
        1 => Just((SIGMA_MIN_512, SIGMA_MIN_512)),
        1 => Just((SIGMA_MAX, SIGMA_MIN_1024)),
        1 => Just((1.43300980528773, 1.43300980528773 - 0.001)),
    ]
    .boxed()
}

pub fn mu_strategy() -> BoxedStrategy<f64> {
    prop_oneof![
        6 => -200.0f64..=200.0,
        2 => (-32000i32..=32000).prop_map(|k| k as f64),
        2 => (-32000i32..=32000).prop_map(|k| k as f64 + 0.5),
        2 => ((-3000i32..=3000), -3i64..=3).prop_map(|(k, d)| f64::from_bits(((k as f64).to_bits() as i64 + d) as u64)),
        2 => -32736.0f64..=32736.0,
        1 => prop_oneof![Just(0.0f64), Just(-0.0f64), Just(32736.0f64), Just(-32736.0f64), Just(1e-300f64), Just(-1e-300f64)],
    ]
    .boxed()
}

impl Sub for SamplerZ {
    type Case = ZCase;
    fn restrictable(&self) -> bool {
        true
    }
    fn name(&self) -> &'static str {
        "sampler_z"
    }
    fn strategy(&self, _env: &Env) -> BoxedStrategy<ZCase> {
        // byte streams: uniform, or a prefix biased towards 0x00 / 0xFF (rare base-sampler outputs,
        // rejections), always followed by a seeded uniform tail so that the loop terminates
        let script = prop_oneof![
            3 => Just(vec![]),
            3 => (prop_oneof![6 => 0usize..120, 1 => 120usize..3000], prop_oneof![Just(0u8), Just(0xFFu8)], prop_oneof![4 => 0.0f64..0.9, 1 => Just(1.0f64)], any::<u64>()).prop_map(|(len, b, p, seed)| {
                let mut s = seed;
                (0..len)
                    .map(|_| {
                        s = crate::util::mix(s);
                        if ((s >> 11) as f64 / 9007199254740992.0) < p {
                            b
                        } else {
                            (s >> 3) as u8
                        }
                    })
                    .collect()
            }),
            2 => proptest::collection::vec(any::<u8>(), 0..60),
        ];
        let prev = prop_oneof![
            3 => Just(0u8), // none
            1 => Just(1u8), // same mu, sigma one ulp away
            1 => Just(2u8), // same sigma, the other variant's sigma_min
            1 => Just(3u8), // sigma nearby (1e-9 relative)
            1 => Just(4u8), // unrelated
        ];
        (mu_strategy(), sigma_pair(), script, any::<u64>(), prev).prop_map(|(mu, (sigma, sigma_min), script, tail_seed, pk)| {
            let prev = match pk {
                0 => None,
                1 => Some((mu, f64::from_bits(sigma.to_bits() + 1).min(SIGMA_MAX), sigma_min)),
                2 => Some((mu + 1.0, sigma.max(SIGMA_MIN_1024), if sigma_min == SIGMA_MIN_512 { SIGMA_MIN_1024 } else { SIGMA_MIN_512 })),
                3 => Some((mu - 0.25, (sigma * (1.0 + 1e-9)).min(SIGMA_MAX), sigma_min)),
                _ => Some((-mu, SIGMA_MAX, sigma_min)),
            };
            let (mut mu, mut script) = (mu, script);
            if tail_seed % 6 == 0 && mu.is_finite() {
                // the first Bernoulli trial ties on all seven bytes, with mu moved by ulps until the
                // threshold's eighth byte is zero (the tie is then decided: reject, go round again)
                let mut head = [0u8; 10];
                let mut s = tail_seed;
                for b in head.iter_mut() {
                    s = crate::util::mix(s);
                    *b = (s >> 5) as u8;
                }
                let nine: [u8; 9] = head[..9].try_into().unwrap();
                for _ in 0..4000 {
                    let (x, ccs) = model::first_trial(mu, sigma, sigma_min, &nine, head[9]);
                    let z = model::ber_exp_threshold(x, ccs, model::s_candidates(x)[0]);
                    if z & 0xFF == 0 && model::s_candidates(x).len() == 1 {
                        let mut t = head.to_vec();
                        t.extend_from_slice(&z.to_be_bytes()[..7]);
                        t.extend(script.iter().skip(17));
                        script = t;
                        break;
                    }
                    mu = f64::from_bits(mu.to_bits().wrapping_add(1));
                    if !mu.is_finite() {
                        break;
                    }
                }
            }
            ZCase { mu, sigma, sigma_min, script: Hex(script), tail_seed, prev }
        }).boxed()
    }
    fn check(&self, c: &ZCase, st: &mut Stats) -> Result<(), Fail> {
        if !(c.mu.abs() <= 32736.0 && c.sigma >= 1.2 && c.sigma <= SIGMA_MAX && c.sigma_min > 0.0 && c.sigma_min <= c.sigma) {
            return Ok(());
        }
        if let Some((pm, ps, pmin)) = c.prev {
            if pm.abs() <= 32736.0 && ps >= 1.2 && ps <= SIGMA_MAX && pmin > 0.0 && pmin <= ps {
                let mut r = ByteRng::new(vec![], Some(c.tail_seed ^ 0x9e37));
                let _ = hook::sampler_z(pm, ps, pmin, &mut r);
                st.count("sampler_calls_preceded_by_a_related_call");
            }
        }
        let mut mrng = ByteRng::new(c.script.0.clone(), Some(c.tail_seed));
        let trace = model::sampler_z(c.mu, c.sigma, c.sigma_min, &mut || Some(mrng.next_byte()), 10_000);
        let trace = match trace {
            Some(t) => t,
            None => {
                st.count("sampler_model_did_not_terminate_in_10000_iterations");
                return Ok(());
            }
        };
        if trace.ambiguous {
            // a Bernoulli trial on which two conforming evaluations may differ: the streams may
            // legitimately diverge, so only totality is required
            let mut rng = ByteRng::new(c.script.0.clone(), Some(c.tail_seed));
            let _ = hook::sampler_z(c.mu, c.sigma, c.sigma_min, &mut rng);
            st.count("sampler_ambiguous_trial(total_only)");
            return Ok(());
        }
        let mut rng = ByteRng::new(c.script.0.clone(), Some(c.tail_seed));
        let got = hook::sampler_z(c.mu, c.sigma, c.sigma_min, &mut rng) as i64;
        ensure!(got == trace.z, "sampler:z", "SamplerZ(mu = {}, sigma = {}) on this stream returns {} in the model ({} iterations) but {} in the library", c.mu, c.sigma, trace.z, trace.iterations, got);
        ensure!(rng.consumed == trace.bytes_consumed, "sampler:consumption", "SamplerZ consumed {} bytes in the library but {} in the model", rng.consumed, trace.bytes_consumed);
        if trace.iterations >= 2 || trace.max_z0 >= 6 {
            st.nontrivial(&(c.mu.to_bits(), c.sigma.to_bits(), &c.script.0, c.tail_seed));
        }
        if trace.iterations >= 2 {
            st.count("sampler_two_or_more_iterations");
            if c.script.0.len() >= 17 {
                let nine: [u8; 9] = c.script.0[..9].try_into().unwrap();
                let (x, ccs) = model::first_trial(c.mu, c.sigma, c.sigma_min, &nine, c.script.0[9]);
                if model::tie_depth(x, ccs, &c.script.0[10..17]) == 7 {
                    st.count("sampler_first_trial_ties_on_all_seven_bytes(decided:reject)");
                }
            }
        }
        if trace.max_z0 >= 6 {
            st.count("sampler_z0_ge_6");
        }
        st.add("sampler_iterations", trace.iterations as u64);
        st.sample("sampler_z", || json!({"mu": c.mu, "sigma": c.sigma, "sigma_min": c.sigma_min, "script_len": c.script.0.len(), "z": got, "iterations": trace.iterations}));
        Ok(())
    }
}

// ------------------------------------------------------------------ 5. distribution

#[derive(Clone, Debug, Serialize, Deserialize)]
pub struct DistCase {
    mu: f64,
    sigma: f64,
    sigma_min: f64,
    seed: u64,
    samples: u32,
    /// number of tests sharing the run's false-alarm budget (Bonferroni)
    tests: u32,
}

pub struct Distribution {
    pub samples: u32,
    pub tests: u32,
}

/// Total false-alarm probability of the distribution sub-check per run.
const ALPHA: f64 = 1e-9;

impl Sub for Distribution {
    type Case = DistCase;
    fn restrictable(&self) -> bool {
        true
    }
    fn name(&self) -> &'static str {
        "sampler_distribution"
    }
    fn max_shrink_iters(&self) -> u32 {
        8
    }
    fn strategy(&self, _env: &Env) -> BoxedStrategy<DistCase> {
        let (samples, tests) = (self.samples, self.tests);
        let mu = prop_oneof![4 => -50.0f64..=50.0, 1 => (-50i32..50).prop_map(|k| k as f64), 1 => (-50i32..50).prop_map(|k| k as f64 + 0.5), 1 => -30000.0f64..30000.0];
        (mu, sigma_pair(), any::<u64>()).prop_map(move |(mu, (sigma, sigma_min), seed)| DistCase { mu, sigma, sigma_min, seed, samples, tests }).boxed()
    }
    fn check(&self, c: &DistCase, st: &mut Stats) -> Result<(), Fail> {
        let n = c.samples as usize;
        let centre = c.mu.round() as i64;
        const W: i64 = 12;
        let mut counts = vec![0u64; (2 * W + 3) as usize]; // [below, -W..=W, above]
        let mut rng = ByteRng::new(vec![], Some(c.seed));
        let mut sum = 0.0;
        for _ in 0..n {
            let z = hook::sampler_z(c.mu, c.sigma, c.sigma_min, &mut rng) as i64;
            let d = z - centre;
            sum += z as f64 - c.mu;
            let idx = if d < -W { 0 } else if d > W { (2 * W + 2) as usize } else { (d + W + 1) as usize };
            counts[idx] += 1;
        }
        let pmf = model::discrete_gaussian_pmf(c.mu, c.sigma, centre - W, centre + W);
        let inside: f64 = pmf.iter().sum();
        let below: f64 = model::discrete_gaussian_pmf(c.mu, c.sigma, centre - 40, centre - W - 1).iter().sum();
        let mut expect = vec![below * n as f64];
        expect.extend(pmf.iter().map(|p| p * n as f64));
        expect.push((1.0 - inside - below).max(0.0) * n as f64);
        // merge cells with small expectation into their inner neighbour, from both ends
        let (mut lo, mut hi) = (0usize, counts.len() - 1);
        let (mut c_lo, mut e_lo, mut c_hi, mut e_hi) = (0u64, 0.0, 0u64, 0.0);
        while lo < hi && e_lo + expect[lo] < 25.0 {
            c_lo += counts[lo];
            e_lo += expect[lo];
            lo += 1;
        }
        while hi > lo && e_hi + expect[hi] < 25.0 {
            c_hi += counts[hi];
            e_hi += expect[hi];
            hi -= 1;
        }
        let mut chi2 = 0.0;
        let mut cells = 0;
        for i in lo..=hi {
            let (mut o, mut e) = (counts[i] as f64, expect[i]);
            if i == lo {
                o += c_lo as f64;
                e += e_lo;
            }
            if i == hi {
                o += c_hi as f64;
                e += e_hi;
            }
            chi2 += (o - e) * (o - e) / e;
            cells += 1;
        }
        let dof = (cells - 1) as f64;
        let p = stats::chi2_sf(chi2, dof);
        let threshold = ALPHA / c.tests.max(1) as f64;
        st.range("distribution_chi2_p_value", p);
        st.range("distribution_mean_offset_in_sigmas_of_the_mean", (sum / n as f64 - mean_offset(c.mu, c.sigma)) / (c.sigma / (n as f64).sqrt()));
        ensure!(
            p >= threshold,
            "sampler:distribution",
            "SamplerZ(mu = {}, sigma = {}) over {} uniform draws: chi^2 = {:.1} on {} degrees of freedom, p = {:e} < {:e}; observed/expected around the centre: {:?}",
            c.mu, c.sigma, n, chi2, dof, p, threshold,
            (W - 3..=W + 5).map(|i| (counts[i as usize], expect[i as usize].round())).collect::<Vec<_>>()
        );
        st.nontrivial(&(c.mu.to_bits(), c.sigma.to_bits(), c.seed));
        st.add("distribution_samples_drawn", n as u64);
        st.count("distribution_tests");
        st.sample("distribution", || json!({"mu": c.mu, "sigma": c.sigma, "samples": n, "chi2": chi2, "dof": dof, "p": p}));
        Ok(())
    }
}

/// E[z - mu] for z ~ D_{Z,mu,sigma}
fn mean_offset(mu: f64, sigma: f64) -> f64 {
    let c = mu.round() as i64;
    let pmf = model::discrete_gaussian_pmf(mu, sigma, c - 40, c + 40);
    pmf.iter().enumerate().map(|(i, p)| p * ((c - 40 + i as i64) as f64 - mu)).sum()
}

const META: Meta = Meta {
    rule: "five sub-checks against refimpl::sampler (integer-exact transcription of Algorithms 12-15): (1) BaseSampler on every breakpoint RCDT[i]-2..+2, 0, 2^72-1, log-uniform and uniform 72-bit inputs, non-trivial = within 1 of a breakpoint or below 2^40; (2) ApproxExp bit-exact on x in [0, ln 2] (uniform, dyadic, subnormal, ln 2 - ulp) and ccs in (0,1] (1.0, sigma_min/sigma' for both variants, key generation's), plus the analytic bound |result - 2^63 ccs e^-x| <= 2^-45 * 2^63; (3) BerExp on x in [0,60] including k ln 2 +- ulps and s >= 63, with the 7 bytes uniform or computed from the model to tie on the first d = 0..7 bytes and the next byte below/equal/above, non-trivial = tie depth >= 1; with d = 7 the answer must be 'reject' when the threshold's eighth byte is zero (x is moved by ulps until it is, in 3 of 5 such cases) and only totality is required otherwise; where division and multiplication by 1/ln 2 give different floor(x/ln 2) either answer is accepted; (4) SamplerZ differential (same output and same number of bytes consumed) for mu in [-32736, 32736] (integers, half-integers, ulps around integers), sigma' in [sigma_min, 1.8205] for both variants and key generation, on uniform and 0x00/0xFF-biased scripted byte prefixes (up to 3000 bytes, i.e. more than a hundred consecutive rejections) with a seeded uniform tail, and streams whose first Bernoulli trial ties on all seven bytes with a zero eighth threshold byte (mu moved by ulps until it is), non-trivial = at least 2 loop iterations or z0 >= 6; (5) chi-square goodness of fit of N uniform-stream samples against D_{Z,mu,sigma'} on cells centre-12..centre+12 plus tails (cells with expectation < 25 merged), per-run false-alarm probability 1e-9 (Bonferroni over the tests of the run). Distinct by hash of the case.",
    assumptions: &[
        "oracle: refimpl::sampler; its RCDT is re-derived by tools/derive_constants.py as sum_{j>i} floor(2^72 rho(j)/sum rho), its ApproxExp is accurate to 2^-44 against libm exp, and it reproduces the specification's known-answer vectors (refimpl self-tests)",
        "the sampler draws one byte per RngCore::next_u32 call (rand 0.8 semantics for u8), which the scripted byte source reproduces",
        "termination is asserted relative to the model: a stream on which the specification's sampler itself rejects forever is not a counterexample",
        "statistical sub-check: deterministic function of VERIF_SEED; detects bulk bias, not 2^-60 tail errors (sub-checks 1-3 are exact for those)",
    ],
};

pub fn run(env: &Env, replay: Option<&Path>) -> i32 {
    let mut report = Report::new();
    let (pairs, samples) = env.tier.pick((48u32, 200_000u32), (400, 1_000_000));
    let dist = Distribution { samples, tests: pairs };
    let cold = crate::coldstart::ColdStart("C09");
    let subs: [&dyn DynSub; 6] = [&Base, &ApproxExp, &BerExp, &SamplerZ, &dist, &cold];
    if let Some(p) = replay {
        if let Err(e) = replay_file(env, &subs, p, &mut report) {
            eprintln!("harness: {}", e);
            return 2;
        }
        return finish(env, report, &META);
    }
    replay_corpus(env, &subs, &mut report);
    // every breakpoint, enumerated
    let edges = RCDT.iter().flat_map(|&r| (-2i128..=2).map(move |d| base_case((r as i128 + d).max(0) as u128))).chain([base_case(0), base_case((1u128 << 72) - 1)]);
    drive_enumerated(env, &Base, edges, &mut report);
    drive(env, &Base, env.tier.pick(2_000_000, 20_000_000), &mut report);
    drive(env, &ApproxExp, env.tier.pick(2_000_000, 20_000_000), &mut report);
    drive(env, &BerExp, env.tier.pick(2_000_000, 20_000_000), &mut report);
    drive(env, &SamplerZ, env.tier.pick(1_000_000, 10_000_000), &mut report);
    drive(env, &dist, pairs as u64, &mut report);
    report.extra.insert("distribution_false_alarm_probability_per_run".into(), json!(ALPHA));
    // fresh processes whose threads make their first calls at the same moment
    report.notes.push(crate::coldstart::NOTE.to_string());
    drive(env, &cold, env.tier.pick(240, 6000), &mut report);
    finish(env, report, &META)
}
