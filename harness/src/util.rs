//! Small helpers shared by all checks.

use rand::RngCore;
use rand_chacha::ChaCha12Rng;
use serde::{Deserialize, Deserializer, Serialize, Serializer};

pub fn hex(b: &[u8]) -> String {
    let mut s = String::with_capacity(b.len() * 2);
    for x in b {
        s.push_str(&format!("{:02x}", x));
    }
    s
}

pub fn unhex(s: &str) -> Result<Vec<u8>, String> {
    if s.len() % 2 != 0 {
        return Err("odd hex length".into());
    }
    (0..s.len() / 2)
        .map(|i| u8::from_str_radix(&s[2 * i..2 * i + 2], 16).map_err(|e| e.to_string()))
        .collect()
}

/// Byte string that serialises as hex (keeps replay files readable).
#[derive(Clone, PartialEq, Eq, Hash, Default)]
pub struct Hex(pub Vec<u8>);

impl std::fmt::Debug for Hex {
    fn fmt(&self, f: &mut std::fmt::Formatter<'_>) -> std::fmt::Result {
        if self.0.len() <= 64 {
            write!(f, "Hex({})", hex(&self.0))
        } else {
            write!(f, "Hex({}..[{} bytes])", hex(&self.0[..32]), self.0.len())
        }
    }
}

impl Serialize for Hex {
    fn serialize<S: Serializer>(&self, s: S) -> Result<S::Ok, S::Error> {
        s.serialize_str(&hex(&self.0))
    }
}

impl<'de> Deserialize<'de> for Hex {
    fn deserialize<D: Deserializer<'de>>(d: D) -> Result<Self, D::Error> {
        let s = String::deserialize(d)?;
        unhex(&s).map(Hex).map_err(serde::de::Error::custom)
    }
}

pub fn fnv(data: &[u8]) -> u64 {
    let mut h = 0xcbf29ce484222325u64;
    for &b in data {
        h ^= b as u64;
        h = h.wrapping_mul(0x100000001b3);
    }
    h
}

pub fn hash_of<T: std::hash::Hash>(t: &T) -> u64 {
    use std::hash::Hasher;
    let mut h = std::collections::hash_map::DefaultHasher::new();
    t.hash(&mut h);
    h.finish()
}

/// splitmix64, for deriving sub-seeds.
pub fn mix(mut x: u64) -> u64 {
    x = x.wrapping_add(0x9E3779B97F4A7C15);
    x = (x ^ (x >> 30)).wrapping_mul(0xBF58476D1CE4E5B9);
    x = (x ^ (x >> 27)).wrapping_mul(0x94D049BB133111EB);
    x ^ (x >> 31)
}

pub fn seed32(x: u64) -> [u8; 32] {
    let mut out = [0u8; 32];
    let mut s = x;
    for ch in out.chunks_mut(8) {
        s = mix(s);
        ch.copy_from_slice(&s.to_le_bytes());
    }
    out
}

pub fn chacha(seed: u64) -> ChaCha12Rng {
    use rand::SeedableRng;
    ChaCha12Rng::from_seed(seed32(seed))
}

/// A byte source for code that draws bytes through `RngCore`: first the scripted prefix, then a
/// seeded ChaCha tail (so that rejection loops terminate). One byte is consumed per `next_u32` /
/// `next_u64` call, which is how `rand` 0.8 draws a `u8` (`next_u32() as u8`) and therefore how the
/// crate's sampler consumes its "bytes".
pub struct ByteRng {
    pub script: Vec<u8>,
    pub pos: usize,
    pub tail: Option<ChaCha12Rng>,
    /// number of bytes handed out in total
    pub consumed: usize,
    /// set when the script ran out and there is no tail
    pub exhausted: bool,
}

impl ByteRng {
    pub fn new(script: Vec<u8>, tail_seed: Option<u64>) -> Self {
        ByteRng { script, pos: 0, tail: tail_seed.map(chacha), consumed: 0, exhausted: false }
    }
    pub fn next_byte(&mut self) -> u8 {
        self.consumed += 1;
        if self.pos < self.script.len() {
            self.pos += 1;
            self.script[self.pos - 1]
        } else if let Some(t) = self.tail.as_mut() {
            (t.next_u32() & 0xFF) as u8
        } else {
            self.exhausted = true;
            0
        }
    }
}

impl RngCore for ByteRng {
    fn next_u32(&mut self) -> u32 {
        self.next_byte() as u32
    }
    fn next_u64(&mut self) -> u64 {
        self.next_byte() as u64
    }
    fn fill_bytes(&mut self, dest: &mut [u8]) {
        for d in dest.iter_mut() {
            *d = self.next_byte();
        }
    }
    fn try_fill_bytes(&mut self, dest: &mut [u8]) -> Result<(), rand::Error> {
        self.fill_bytes(dest);
        Ok(())
    }
}

pub fn to_i64(v: &[i16]) -> Vec<i64> {
    v.iter().map(|&x| x as i64).collect()
}

pub fn to_i16(v: &[i64]) -> Vec<i16> {
    v.iter().map(|&x| x as i16).collect()
}

/// Byte source for the signer: ChaCha bytes, each of the first `biased_len` bytes replaced by 0x00
/// with probability `p_zero_per_64k / 65536`, uniform afterwards (so that signing terminates). A zero top
/// byte in the base sampler's 9-byte draw forces z0 >= 5, which inflates the variance of the
/// sampled vector and drives the signer's norm-retry and compression-retry branches.
pub struct BiasedRng {
    pub inner: ChaCha12Rng,
    pub p_zero_per_64k: u32,
    pub biased_left: usize,
    pub consumed: usize,
}

impl BiasedRng {
    pub fn new(seed: u64, p_zero_per_64k: u32, biased_len: usize) -> Self {
        BiasedRng { inner: chacha(seed), p_zero_per_64k, biased_left: biased_len, consumed: 0 }
    }
    fn next_byte(&mut self) -> u8 {
        let w = self.inner.next_u32();
        self.consumed += 1;
        if self.biased_left > 0 {
            self.biased_left -= 1;
            if (w >> 8) & 0xFFFF < self.p_zero_per_64k {
                return 0;
            }
        }
        w as u8
    }
}

impl RngCore for BiasedRng {
    fn next_u32(&mut self) -> u32 {
        self.next_byte() as u32
    }
    fn next_u64(&mut self) -> u64 {
        self.next_byte() as u64
    }
    fn fill_bytes(&mut self, dest: &mut [u8]) {
        for d in dest.iter_mut() {
            *d = self.next_byte();
        }
    }
    fn try_fill_bytes(&mut self, dest: &mut [u8]) -> Result<(), rand::Error> {
        self.fill_bytes(dest);
        Ok(())
    }
}

/// A signer byte stream that makes the first `forced` attempts of `falcon::sign` fail the norm
/// test and is honest (ChaCha) from then on. The first 72 bytes (salt and the unused 32-byte seed)
/// are honest; then every SamplerZ iteration is handed `00 40 00*7 | 00 | 00*7` (base-sampler
/// draw, sign byte, Bernoulli bytes): z0 = 6, sign = minus, accepted at once, i.e. exactly 17 bytes
/// per call and every coordinate 6 below floor(mu) - far outside the norm bound. The last forced
/// attempt is only forced for its first three quarters, so that a different byte consumption per
/// call errs on the side of ending the forcing early (the rest of that attempt is then honest and
/// it still fails); the accepted attempt never sees a forced byte.
pub struct RestartRng {
    pub inner: ChaCha12Rng,
    pub forced_from: usize,
    pub forced_to: usize,
    pub consumed: usize,
}

impl RestartRng {
    pub fn new(seed: u64, n: usize, forced: usize) -> Self {
        let per_attempt = 2 * n * 17;
        let len = if forced == 0 { 0 } else { (forced - 1) * per_attempt + per_attempt * 3 / 4 };
        RestartRng { inner: chacha(seed), forced_from: 72, forced_to: 72 + len, consumed: 0 }
    }
    fn next_byte(&mut self) -> u8 {
        let i = self.consumed;
        self.consumed += 1;
        let w = self.inner.next_u32();
        if i >= self.forced_from && i < self.forced_to {
            return if (i - self.forced_from) % 17 == 1 { 0x40 } else { 0 };
        }
        w as u8
    }
}

impl RngCore for RestartRng {
    fn next_u32(&mut self) -> u32 {
        self.next_byte() as u32
    }
    fn next_u64(&mut self) -> u64 {
        self.next_byte() as u64
    }
    fn fill_bytes(&mut self, dest: &mut [u8]) {
        for d in dest.iter_mut() {
            *d = self.next_byte();
        }
    }
    fn try_fill_bytes(&mut self, dest: &mut [u8]) -> Result<(), rand::Error> {
        self.fill_bytes(dest);
        Ok(())
    }
}

extern "C" {
    fn sched_getaffinity(pid: i32, cpusetsize: usize, mask: *mut u8) -> i32;
    fn sched_setaffinity(pid: i32, cpusetsize: usize, mask: *const u8) -> i32;
}

/// Restrict the calling thread to `cpus` of the CPUs it may use now, skipping the first `skip` of
/// them, so that `std::thread::available_parallelism` reports `cpus` on it (threads and child
/// processes started from it inherit the restriction). False when that is not possible (not
/// Linux-like, fewer CPUs than asked for); the thread's affinity is unchanged then.
pub fn restrict_this_thread(cpus: usize, skip: usize) -> bool {
    let mut mask = [0u8; 128];
    if cpus == 0 || unsafe { sched_getaffinity(0, mask.len(), mask.as_mut_ptr()) } != 0 {
        return false;
    }
    let (mut seen, mut kept) = (0, 0);
    for bit in 0..mask.len() * 8 {
        if mask[bit / 8] >> (bit % 8) & 1 == 1 {
            if seen < skip || kept >= cpus {
                mask[bit / 8] &= !(1 << (bit % 8));
            } else {
                kept += 1;
            }
            seen += 1;
        }
    }
    if kept < cpus || unsafe { sched_setaffinity(0, mask.len(), mask.as_ptr()) } != 0 {
        return false;
    }
    std::thread::available_parallelism().map(|p| p.get()).unwrap_or(0) == cpus
}

/// Run `f` on a fresh thread that may only use the first `cpus` of the CPUs this thread is
/// allowed to use and whose stack has `stack` bytes. `None` when the affinity could not be set;
/// the closure is not run then.
pub fn on_restricted_thread<T: Send>(cpus: usize, stack: usize, f: impl FnOnce() -> T + Send) -> Option<T> {
    std::thread::scope(|sc| {
        std::thread::Builder::new()
            .stack_size(stack)
            .spawn_scoped(sc, move || if restrict_this_thread(cpus, 0) { Some(f()) } else { None })
            .ok()?
            .join()
            .ok()?
    })
}

/// Wraps the signer's byte source with a budget: a `sign` call that has drawn more than
/// `SIGN_BUDGET` bytes (about a thousand complete attempts) is not going to terminate, and is
/// stopped by a panic with a recognisable message instead of hanging the run. An honest signer
/// needs one attempt, rarely two; the forcing streams of this harness a handful.
pub const SIGN_BUDGET: usize = 32 << 20;
pub const SIGN_BUDGET_MESSAGE: &str = "the signer drew more than 32 MiB from its random generator in one call: sign does not terminate";

pub struct Budget {
    inner: Box<dyn RngCore>,
    left: usize,
}

impl Budget {
    pub fn new(inner: Box<dyn RngCore>) -> Self {
        Budget { inner, left: SIGN_BUDGET }
    }
    fn spend(&mut self, n: usize) {
        if self.left < n {
            panic!("{}", SIGN_BUDGET_MESSAGE);
        }
        self.left -= n;
    }
}

impl RngCore for Budget {
    fn next_u32(&mut self) -> u32 {
        self.spend(1);
        self.inner.next_u32()
    }
    fn next_u64(&mut self) -> u64 {
        self.spend(1);
        self.inner.next_u64()
    }
    fn fill_bytes(&mut self, dest: &mut [u8]) {
        self.spend(dest.len());
        self.inner.fill_bytes(dest)
    }
    fn try_fill_bytes(&mut self, dest: &mut [u8]) -> Result<(), rand::Error> {
        self.fill_bytes(dest);
        Ok(())
    }
}
