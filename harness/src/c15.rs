//! C15 — key generation is a deterministic function of the seed, and every seed bit matters.

use proptest::prelude::*;
use serde::{Deserialize, Serialize};
use serde_json::json;
use std::collections::HashMap;
use std::path::Path;

use crate::api::{self, seed_from, seed_hex};
use crate::child::run_child;
use crate::engine::*;
use crate::util::{hex, mix, unhex, Hex};

// ------------------------------------------------------------------ bit flips

#[derive(Clone, Debug, Serialize, Deserialize)]
pub struct FlipCase {
    n: usize,
    seed: Hex,
    bit: usize,
}

pub struct BitFlip;

impl Sub for BitFlip {
    type Case = FlipCase;
    fn restrictable(&self) -> bool {
        true
    }
    fn name(&self) -> &'static str {
        "seed_bit_flip"
    }
    fn max_shrink_iters(&self) -> u32 {
        8
    }
    fn batch(&self) -> usize {
        1
    }
    fn strategy(&self, _env: &Env) -> BoxedStrategy<FlipCase> {
        (prop_oneof![3 => Just(512usize), 1 => Just(1024usize)], any::<[u8; 32]>(), 0usize..256).prop_map(|(n, s, bit)| FlipCase { n, seed: seed_hex(&s), bit }).boxed()
    }
    fn check(&self, c: &FlipCase, st: &mut Stats) -> Result<(), Fail> {
        let seed = seed_from(&c.seed).ok_or_else(|| Fail::new("harness:bad-replay", "seed must be 32 bytes"))?;
        ensure!(c.bit < 256, "harness:bad-replay", "bit must be below 256");
        let base = api::key(c.n, seed); // memoised: the unflipped key is shared by all flips of a seed
        let mut flipped = seed;
        flipped[c.bit / 8] ^= 1 << (c.bit % 8);
        let (sk, pk) = api::keygen(c.n, flipped);
        let (skb, pkb) = (sk.to_bytes(), pk.to_bytes());
        let same_sk = skb == base.sk_bytes;
        let same_pk = pkb == base.pk_bytes;
        ensure!(!(same_sk && same_pk), "keygen:bit-ignored", "flipping bit {} of the seed (byte {}, mask 0x{:02x}) yields the same Falcon-{} key pair", c.bit, c.bit / 8, 1u8 << (c.bit % 8), c.n);
        if !same_sk && !same_pk {
            st.count("flips_changing_both_keys");
        } else {
            st.count("flips_changing_only_one_key");
        }
        st.count(&format!("flips_{}", c.n));
        st.count(&format!("bit_position_covered_{:03}", c.bit));
        st.nontrivial(&(c.n, seed, c.bit));
        st.sample(&format!("flip_{}", c.n), || json!({"n": c.n, "seed": hex(&seed), "bit": c.bit}));
        Ok(())
    }
}

// ------------------------------------------------------------------ repeated generation of one seed

/// keygen(seed) three times - twice in this thread, once in a fresh thread - must give the same
/// bytes. Used for seeds selected because key generation works unusually hard on them (many
/// rejected candidates): retry budgets, fallbacks and the like live on that path.
#[derive(Clone, Debug, Serialize, Deserialize)]
pub struct RepeatCase {
    n: usize,
    seed: Hex,
    /// rejected candidates before the first acceptable one, as counted by the pre-screen (0 = not screened)
    #[serde(default)]
    rejected_candidates: u32,
}

pub struct Repeat;

impl Sub for Repeat {
    type Case = RepeatCase;
    fn restrictable(&self) -> bool {
        true
    }
    fn name(&self) -> &'static str {
        "keygen_repeat"
    }
    fn max_shrink_iters(&self) -> u32 {
        4
    }
    fn batch(&self) -> usize {
        1
    }
    fn strategy(&self, _env: &Env) -> BoxedStrategy<RepeatCase> {
        (prop_oneof![3 => Just(512usize), 1 => Just(1024usize)], crate::gen::seed_strategy()).prop_map(|(n, s)| RepeatCase { n, seed: seed_hex(&s), rejected_candidates: 0 }).boxed()
    }
    fn check(&self, c: &RepeatCase, st: &mut Stats) -> Result<(), Fail> {
        let seed = seed_from(&c.seed).ok_or_else(|| Fail::new("harness:bad-replay", "seed must be 32 bytes"))?;
        let n = c.n;
        let first = api::keygen(n, seed);
        let (sk0, pk0) = (first.0.to_bytes(), first.1.to_bytes());
        let second = api::keygen(n, seed);
        ensure!(second.0.to_bytes() == sk0 && second.1.to_bytes() == pk0, "keygen:not-deterministic", "two consecutive generations of the Falcon-{} key of seed {} in one thread differ ({} rejected candidates in the pre-screen)", n, hex(&seed), c.rejected_candidates);
        let third = std::thread::spawn(move || {
            let (sk, pk) = api::keygen(n, seed);
            (sk.to_bytes(), pk.to_bytes())
        })
        .join()
        .map_err(|_| Fail::new("keygen:panic-in-thread", "key generation panicked in a spawned thread"))?;
        ensure!(third.0 == sk0 && third.1 == pk0, "keygen:not-deterministic", "generating the Falcon-{} key of seed {} in a fresh thread gives different bytes ({} rejected candidates in the pre-screen)", n, hex(&seed), c.rejected_candidates);
        st.count(&format!("repeated_generations_{}", n));
        if c.rejected_candidates >= 50 {
            st.count("repeated_generations_of_slow_seeds(>=50_rejected_candidates)");
        }
        st.range("rejected_candidates_of_screened_seeds", c.rejected_candidates as f64);
        st.nontrivial(&(n, seed, "repeat"));
        st.sample(if c.rejected_candidates > 0 { "repeat_slow_seed" } else { "repeat" }, || json!({"n": n, "seed": hex(&seed), "rejected_candidates": c.rejected_candidates}));
        Ok(())
    }
}

/// keygen(S') right after keygen(S) on the same thread, for S' RELATED to S (same bit flipped in two
/// bytes, bytes swapped or rotated, complemented, constant-byte pairs), must equal keygen(S') on a
/// fresh thread and differ from keygen(S): a memo or comparison that confuses related seeds shows here.
#[derive(Clone, Debug, Serialize, Deserialize)]
pub struct RelatedCase {
    n: usize,
    seed: Hex,
    /// 0: flip one bit position in two bytes; 1: in four bytes; 2: swap two bytes; 3: rotate by one
    /// byte; 4: complement; 5: constant-byte pair (seed byte 0 and 1 give the two constants)
    relation: u8,
    a: u8,
    b: u8,
}

pub struct RelatedSeeds;

fn related(seed: &[u8; 32], relation: u8, a: u8, b: u8) -> ([u8; 32], [u8; 32]) {
    let mut s = *seed;
    let mut t = *seed;
    let (i, j) = ((a % 32) as usize, (b % 32) as usize);
    let bit = 1u8 << (a >> 5);
    match relation % 6 {
        0 => {
            let j = if j == i { (i + 1) % 32 } else { j };
            t[i] ^= bit;
            t[j] ^= bit;
        }
        1 => {
            for k in 0..4 {
                t[(i + 7 * k) % 32] ^= bit;
            }
        }
        2 => t.swap(i, if j == i { (i + 1) % 32 } else { j }),
        3 => t.rotate_left(1),
        4 => {
            for x in t.iter_mut() {
                *x = !*x;
            }
        }
        _ => {
            s = [seed[0]; 32];
            t = [if seed[1] == seed[0] { !seed[0] } else { seed[1] }; 32];
        }
    }
    (s, t)
}

impl Sub for RelatedSeeds {
    type Case = RelatedCase;
    fn restrictable(&self) -> bool {
        true
    }
    fn name(&self) -> &'static str {
        "keygen_related_seeds"
    }
    fn max_shrink_iters(&self) -> u32 {
        8
    }
    fn batch(&self) -> usize {
        1
    }
    fn strategy(&self, _env: &Env) -> BoxedStrategy<RelatedCase> {
        (prop_oneof![5 => Just(512usize), 1 => Just(1024usize)], any::<[u8; 32]>(), 0u8..6, any::<u8>(), any::<u8>()).prop_map(|(n, s, relation, a, b)| RelatedCase { n, seed: seed_hex(&s), relation, a, b }).boxed()
    }
    fn check(&self, c: &RelatedCase, st: &mut Stats) -> Result<(), Fail> {
        let seed = seed_from(&c.seed).ok_or_else(|| Fail::new("harness:bad-replay", "seed must be 32 bytes"))?;
        let n = c.n;
        let (s, t) = related(&seed, c.relation, c.a, c.b);
        if s == t {
            return Ok(());
        }
        // one fresh thread: S, then S'
        let seq = std::thread::spawn(move || {
            let first = api::keygen(n, s);
            let second = api::keygen(n, t);
            ((first.0.to_bytes(), first.1.to_bytes()), (second.0.to_bytes(), second.1.to_bytes()))
        })
        .join()
        .map_err(|_| Fail::new("keygen:panic-in-thread", "key generation panicked in a spawned thread"))?;
        // another fresh thread: S' alone
        let alone = std::thread::spawn(move || {
            let k = api::keygen(n, t);
            (k.0.to_bytes(), k.1.to_bytes())
        })
        .join()
        .map_err(|_| Fail::new("keygen:panic-in-thread", "key generation panicked in a spawned thread"))?;
        ensure!(seq.1 == alone, "keygen:history-dependent", "Falcon-{}: keygen({}) right after keygen({}) on the same thread differs from keygen of the same seed on a fresh thread (relation {})", n, hex(&t), hex(&s), c.relation % 6);
        ensure!(seq.0 != seq.1, "keygen:related-seeds-collide", "Falcon-{}: the related seeds {} and {} (relation {}) give the same key pair", n, hex(&s), hex(&t), c.relation % 6);
        st.count(&format!("related_seed_pairs_relation_{}", c.relation % 6));
        st.nontrivial(&(n, s, t));
        st.sample("related_seeds", || json!({"n": n, "first": hex(&s), "second": hex(&t), "relation": c.relation % 6}));
        Ok(())
    }
}

/// keygen(seed) in a fresh process, and in a fresh process that first generated a key of the OTHER
/// variant, must agree with each other and with this process: the result may depend on nothing but
/// the seed, in particular not on which parameter set the process used first.
pub struct ProcessHistory;

impl Sub for ProcessHistory {
    type Case = RepeatCase;
    fn name(&self) -> &'static str {
        "keygen_process_history"
    }
    fn max_shrink_iters(&self) -> u32 {
        2
    }
    fn batch(&self) -> usize {
        1
    }
    fn strategy(&self, _env: &Env) -> BoxedStrategy<RepeatCase> {
        (prop_oneof![3 => Just(512usize), 1 => Just(1024usize)], any::<[u8; 32]>()).prop_map(|(n, s)| RepeatCase { n, seed: seed_hex(&s), rejected_candidates: 0 }).boxed()
    }
    fn check(&self, c: &RepeatCase, st: &mut Stats) -> Result<(), Fail> {
        let seed = seed_from(&c.seed).ok_or_else(|| Fail::new("harness:bad-replay", "seed must be 32 bytes"))?;
        let n = c.n;
        let other = if n == 512 { 1024 } else { 512 };
        let parse = |lines: Vec<String>| -> Result<(Vec<u8>, Vec<u8>), Fail> {
            let parts: Vec<&str> = lines.first().map(|l| l.split_whitespace().collect()).unwrap_or_default();
            if parts.len() != 2 {
                return Err(Fail::new("harness:child", "child printed no key"));
            }
            Ok((unhex(parts[0]).unwrap_or_default(), unhex(parts[1]).unwrap_or_default()))
        };
        let fresh = parse(run_child(&["keygen".into(), n.to_string(), hex(&seed)]).map_err(|e| Fail::new("harness:child", e))?)?;
        let after = parse(run_child(&["keygen-after".into(), n.to_string(), hex(&seed), other.to_string()]).map_err(|e| Fail::new("harness:child", e))?)?;
        ensure!(fresh == after, "keygen:process-history", "Falcon-{} key of seed {}: a fresh process and a process that first generated a Falcon-{} key return different bytes", n, hex(&seed), other);
        let here = api::key(n, seed);
        ensure!(fresh.0 == here.sk_bytes && fresh.1 == here.pk_bytes, "keygen:process-history", "Falcon-{} key of seed {}: a fresh process and this process (which has generated keys of both variants) return different bytes", n, hex(&seed));
        let (f, g, _, _) = here.sk.fg();
        let max_fg = f.iter().chain(g.iter()).map(|x| x.abs()).max().unwrap_or(0);
        st.range(&format!("process_history_max_abs_f_g_{}", n), max_fg as f64);
        st.count(&format!("process_history_comparisons_{}", n));
        st.nontrivial(&(n, seed, "process"));
        st.sample("process_history", || json!({"n": n, "seed": hex(&seed), "max_abs_fg": max_fg}));
        Ok(())
    }
}

/// keygen(seed) on threads that may use one CPU, two CPUs, three CPUs (with a small and a large
/// stack) must give the bytes this process got on its ordinary threads: the result may depend on
/// nothing but the seed, in particular not on how much parallelism the environment offers. Used
/// for random seeds and for seeds on the generator's late-rejection path (first candidate
/// unsolvable, or F, G out of range), where more than one candidate is examined.
pub struct Environment;

impl Sub for Environment {
    type Case = RepeatCase;
    fn name(&self) -> &'static str {
        "keygen_environment"
    }
    fn max_shrink_iters(&self) -> u32 {
        2
    }
    fn batch(&self) -> usize {
        1
    }
    fn strategy(&self, _env: &Env) -> BoxedStrategy<RepeatCase> {
        (prop_oneof![3 => Just(512usize), 1 => Just(1024usize)], crate::gen::seed_strategy()).prop_map(|(n, s)| RepeatCase { n, seed: seed_hex(&s), rejected_candidates: 0 }).boxed()
    }
    fn check(&self, c: &RepeatCase, st: &mut Stats) -> Result<(), Fail> {
        let seed = seed_from(&c.seed).ok_or_else(|| Fail::new("harness:bad-replay", "seed must be 32 bytes"))?;
        let n = c.n;
        let here = api::key(n, seed);
        for (cpus, stack) in [(1usize, 8usize << 20), (2, 64 << 20), (3, 4 << 20)] {
            let got = crate::util::on_restricted_thread(cpus, stack, move || {
                crate::engine::no_panic(|| {
                    let (sk, pk) = api::keygen(n, seed);
                    (sk.to_bytes(), pk.to_bytes())
                })
            });
            match got {
                None => st.count("environment_could_not_be_restricted(skipped)"),
                Some(Err(p)) => return Err(Fail::new("keygen:panic-in-thread", format!("Falcon-{} key generation for seed {} panicked on a thread restricted to {} CPU(s): {}", n, hex(&seed), cpus, p))),
                Some(Ok((sk, pk))) => {
                    ensure!(sk == here.sk_bytes && pk == here.pk_bytes, "keygen:environment", "Falcon-{} key of seed {}: a thread restricted to {} CPU(s) (stack {} MiB) generates a different key than an unrestricted thread of the same process", n, hex(&seed), cpus, stack >> 20);
                    st.count(&format!("generations_restricted_to_{}_cpu", cpus));
                }
            }
        }
        st.nontrivial(&(n, seed, "environment"));
        st.sample("environment", || json!({"n": n, "seed": hex(&seed)}));
        Ok(())
    }
}

/// Number of candidates (f, g) the key generator's loop rejects with its cheap tests (range,
/// invertibility of f, Gram-Schmidt norm) before the first one that passes them; replayed through
/// the hooks. Only selects inputs.
pub fn rejected_candidates(n: usize, seed: [u8; 32], cap: u32) -> u32 {
    use falcon_rust::verif_hooks::keygen_parts as kp;
    use rand::SeedableRng;
    let lim = (1i64 << (refimpl::params::params(n).fg_bits - 1)) - 1;
    let mut rng = rand::rngs::StdRng::from_seed(seed);
    for k in 0..cap {
        let f = kp::gen_poly(n, &mut rng);
        let g = kp::gen_poly(n, &mut rng);
        if f.iter().chain(g.iter()).any(|x| (*x as i64).abs() > lim) {
            continue;
        }
        if refimpl::zq::evaluate_at_roots(&crate::util::to_i64(&f)).iter().any(|&x| x == 0) {
            continue;
        }
        if kp::gram_schmidt_norm_squared(&f, &g) > 1.3689 * 12289.0 {
            continue;
        }
        return k;
    }
    cap
}

/// `fvh hunt-late <n> <first> <count>`: seeds whose first candidate passing the cheap tests is NOT
/// the (f, g) of the generated key, i.e. it was rejected later (unsolvable NTRU equation, F or G out
/// of range): the key generator's late-rejection path.
pub fn hunt_late(n: usize, first: u64, count: u64) {
    use falcon_rust::verif_hooks::keygen_parts as kp;
    use rand::SeedableRng;
    let lim = (1i64 << (refimpl::params::params(n).fg_bits - 1)) - 1;
    let next = std::sync::atomic::AtomicU64::new(0);
    std::thread::scope(|sc| {
        for _ in 0..16 {
            sc.spawn(|| loop {
                let i = next.fetch_add(1, std::sync::atomic::Ordering::Relaxed);
                if i >= count {
                    break;
                }
                let seed = crate::util::seed32(0x1A7E_0000_0000 + first + i);
                let mut rng = rand::rngs::StdRng::from_seed(seed);
                let mut cand = None;
                for _ in 0..400 {
                    let f = kp::gen_poly(n, &mut rng);
                    let g = kp::gen_poly(n, &mut rng);
                    if f.iter().chain(g.iter()).any(|x| (*x as i64).abs() > lim) {
                        continue;
                    }
                    if refimpl::zq::evaluate_at_roots(&crate::util::to_i64(&f)).iter().any(|&x| x == 0) {
                        continue;
                    }
                    if kp::gram_schmidt_norm_squared(&f, &g) > 1.3689 * 12289.0 {
                        continue;
                    }
                    cand = Some((f, g));
                    break;
                }
                if let Some((f, g)) = cand {
                    let (sk, _) = api::keygen(n, seed);
                    let (kf, kg, _, _) = sk.fg();
                    if kf != crate::util::to_i64(&f) || kg != crate::util::to_i64(&g) {
                        println!("{} {}", n, hex(&seed));
                    }
                }
            });
        }
    });
}

/// `fvh hunt-c15 <n> <first> <count> <min>`: seeds with at least <min> rejected candidates.
pub fn hunt(n: usize, first: u64, count: u64, min: u32) {
    let next = std::sync::atomic::AtomicU64::new(0);
    std::thread::scope(|sc| {
        for _ in 0..16 {
            sc.spawn(|| loop {
                let i = next.fetch_add(1, std::sync::atomic::Ordering::Relaxed);
                if i >= count {
                    break;
                }
                let seed = crate::util::seed32(0xC15_0000_0000 + first + i);
                let k = rejected_candidates(n, seed, 400);
                if k >= min {
                    println!("{} {} {}", n, hex(&seed), k);
                }
            });
        }
    });
}

// ------------------------------------------------------------------ histories

#[derive(Clone, Debug, Serialize, Deserialize)]
pub enum Step {
    /// generate the key for seed `k` in the interpreter's own thread
    Keygen { n: usize, k: usize },
    /// ... in a freshly spawned thread
    KeygenInThread { n: usize, k: usize },
    /// ... in a child process
    KeygenInChild { n: usize, k: usize },
    /// ... in two threads at once
    KeygenConcurrently { n: usize, k: usize },
    /// sign a message with the most recent key of seed `k` (if any): an interleaved call that
    /// must not influence later generations
    Sign { n: usize, k: usize, msg: u64 },
}

#[derive(Clone, Debug, Serialize, Deserialize)]
pub struct HistoryCase {
    base: u64,
    steps: Vec<Step>,
}

pub struct History;

fn seed_of(base: u64, n: usize, k: usize) -> [u8; 32] {
    // seed index 2 is a degenerate seed (all-zero or all-0xFF): a key generator that treats such a
    // seed as "no seed given" and falls back to fresh entropy would not be deterministic there
    if k == 2 {
        return if base & 1 == 0 { [0u8; 32] } else { [0xFFu8; 32] };
    }
    crate::util::seed32(base ^ mix(((n as u64) << 8) | k as u64))
}

impl Sub for History {
    type Case = HistoryCase;
    fn name(&self) -> &'static str {
        "keygen_history"
    }
    fn max_shrink_iters(&self) -> u32 {
        24
    }
    fn strategy(&self, _env: &Env) -> BoxedStrategy<HistoryCase> {
        let n = prop_oneof![7 => Just(512usize), 1 => Just(1024usize)];
        let step = (n, prop_oneof![4 => 0usize..2, 1 => Just(2usize)], 0u8..9, any::<u64>()).prop_map(|(n, k, kind, msg)| match kind {
            0 | 1 => Step::Keygen { n, k },
            2 | 3 => Step::KeygenInThread { n, k },
            4 | 5 => Step::KeygenInChild { n, k },
            6 => Step::KeygenConcurrently { n, k },
            _ => Step::Sign { n, k, msg },
        });
        (any::<u64>(), proptest::collection::vec(step, 5..10)).prop_map(|(base, steps)| HistoryCase { base, steps }).boxed()
    }
    fn check(&self, c: &HistoryCase, st: &mut Stats) -> Result<(), Fail> {
        // model: (n, k) -> bytes of the first generation
        let mut model: HashMap<(usize, usize), (Vec<u8>, Vec<u8>)> = HashMap::new();
        let mut live: HashMap<(usize, usize), api::Sk> = HashMap::new();
        let mut regenerated_elsewhere = 0;
        let mut after_sign = false;
        let mut signed = false;
        for (i, step) in c.steps.iter().enumerate() {
            let (n, k, outputs): (usize, usize, Vec<(Vec<u8>, Vec<u8>, &'static str)>) = match step {
                Step::Keygen { n, k } => {
                    let (sk, pk) = api::keygen(*n, seed_of(c.base, *n, *k));
                    let out = (sk.to_bytes(), pk.to_bytes(), "same thread");
                    live.insert((*n, *k), sk);
                    (*n, *k, vec![out])
                }
                Step::KeygenInThread { n, k } => {
                    let seed = seed_of(c.base, *n, *k);
                    let (n2, k2) = (*n, *k);
                    let out = std::thread::spawn(move || {
                        let (sk, pk) = api::keygen(n2, seed);
                        (sk.to_bytes(), pk.to_bytes())
                    })
                    .join()
                    .map_err(|_| Fail::new("keygen:panic-in-thread", "key generation panicked in a spawned thread"))?;
                    (*n, *k, vec![(out.0, out.1, "fresh thread")])
                }
                Step::KeygenConcurrently { n, k } => {
                    let seed = seed_of(c.base, *n, *k);
                    let n2 = *n;
                    let hs: Vec<_> = (0..2)
                        .map(|_| {
                            std::thread::spawn(move || {
                                let (sk, pk) = api::keygen(n2, seed);
                                (sk.to_bytes(), pk.to_bytes())
                            })
                        })
                        .collect();
                    let mut outs = vec![];
                    for h in hs {
                        let o = h.join().map_err(|_| Fail::new("keygen:panic-in-thread", "key generation panicked in a spawned thread"))?;
                        outs.push((o.0, o.1, "two concurrent threads"));
                    }
                    (*n, *k, outs)
                }
                Step::KeygenInChild { n, k } => {
                    let seed = seed_of(c.base, *n, *k);
                    let lines = run_child(&["keygen".into(), n.to_string(), hex(&seed)]).map_err(|e| Fail::new("harness:child", e))?;
                    let parts: Vec<&str> = lines.first().map(|l| l.split_whitespace().collect()).unwrap_or_default();
                    if parts.len() != 2 {
                        return Err(Fail::new("harness:child", "child printed no key"));
                    }
                    (*n, *k, vec![(unhex(parts[0]).unwrap_or_default(), unhex(parts[1]).unwrap_or_default(), "child process")])
                }
                Step::Sign { n, k, msg } => {
                    if let Some(sk) = live.get(&(*n, *k)) {
                        let m = msg.to_le_bytes();
                        let sig = api::sign(&m, sk);
                        ensure!(api::verify(&m, &sig, &sk.public()), "keygen:history-sign", "a signature made during the history does not verify");
                        signed = true;
                    }
                    continue;
                }
            };
            for (skb, pkb, place) in outputs {
                match model.get(&(n, k)) {
                    None => {
                        model.insert((n, k), (skb, pkb));
                    }
                    Some((sk0, pk0)) => {
                        ensure!(
                            *sk0 == skb && *pk0 == pkb,
                            "keygen:not-deterministic",
                            "step {}: generating the Falcon-{} key of seed {} again ({}) gives different bytes (secret key {}, public key {})",
                            i, n, hex(&seed_of(c.base, n, k)), place,
                            if *sk0 == skb { "equal" } else { "differs" },
                            if *pk0 == pkb { "equal" } else { "differs" }
                        );
                        st.count(&format!("regenerations_in_{}", place.replace(' ', "_")));
                        if place != "same thread" {
                            regenerated_elsewhere += 1;
                        }
                        if signed {
                            after_sign = true;
                        }
                    }
                }
            }
        }
        if regenerated_elsewhere > 0 || after_sign {
            st.nontrivial(&(c.base, format!("{:?}", c.steps)));
        }
        if after_sign {
            st.count("regenerations_after_an_interleaved_sign");
        }
        st.count("histories");
        st.sample("history", || json!({"base": c.base, "steps": c.steps}));
        Ok(())
    }
}

const MACHINE_ORACLE: crate::machine::Oracle = crate::machine::Oracle::Determinism;
const MACHINE_OPS: usize = 16;

/// The API history machine (harness/src/machine.rs) with this property's invariant.
pub struct ApiHistory;

impl Sub for ApiHistory {
    type Case = crate::machine::History;
    fn name(&self) -> &'static str {
        "api_history"
    }
    fn max_shrink_iters(&self) -> u32 {
        200
    }
    fn strategy(&self, _env: &Env) -> BoxedStrategy<crate::machine::History> {
        crate::machine::strategy(MACHINE_OPS)
    }
    fn check(&self, c: &crate::machine::History, st: &mut Stats) -> Result<(), Fail> {
        crate::machine::run(c, MACHINE_ORACLE, st)?;
        st.nontrivial(&format!("{:?}", c.ops));
        st.sample("api_history", || serde_json::json!({"variants": c.variants, "ops": c.ops.iter().take(12).collect::<Vec<_>>()}));
        Ok(())
    }
}

const META: Meta = Meta {
    rule: "(1) bit flips: every one of the 256 seed bits of at least one Falcon-512 seed (enumerated) and generated (seed, bit) pairs for both variants: keygen(seed xor e_i) must differ from keygen(seed) as bytes; (2) histories of 5-9 steps over two random seeds per variant plus a degenerate seed (all-zero / all-0xFF), interpreted against a model map seed -> bytes of the first generation: Keygen (same thread), KeygenInThread (fresh thread), KeygenConcurrently (two threads at once), KeygenInChild (the harness re-executes itself), Sign (interleaved signing with a live key); every later generation of a seed must reproduce the first bytes; (3) repeated generation (twice in one thread, once in a fresh thread) of generated seeds and of the committed slow seeds - seeds on which the key generator rejects 60-200 candidates before accepting one, found by replaying its candidate loop through the hooks (`fvh hunt-c15`); (4) process history: the key of a seed generated in a fresh process, in a fresh process that first generated a key of the other variant, and in this process must agree (generated seeds plus committed seeds whose f, g come close to the other variant's coefficient limit). (5) related seeds: keygen(S') right after keygen(S) on one thread, S' obtained from S by flipping one bit position in two or four bytes, swapping or rotating bytes, complementing, or both constant-byte seeds, must equal keygen(S') on a fresh thread and differ from keygen(S). Non-trivial = a bit flip, or a history with a re-generation in another thread/process or after an interleaved sign; distinct by hash.",
    assumptions: &[
        "api_history sub-check: generated histories of 6-60 operations over four in-place key slots (load a fresh object, regenerate, clone, encode/decode, drop, sign and verify on this or a fresh thread; messages include the empty one and two large ones of equal length), interpreted against the obvious model with this property's invariant",
        "'depends on nothing but the seed' is tested against the influences the harness can vary: thread, process, call history, prior signing; not the machine",
        "schedules are exercised by real threads, not enumerated (key generation has no shared mutable state)",
    ],
};

pub fn run(env: &Env, replay: Option<&Path>) -> i32 {
    let mut report = Report::new();
    let cold = crate::coldstart::ColdStart("C15");
    let subs: [&dyn DynSub; 8] = [&BitFlip, &History, &Repeat, &ProcessHistory, &ApiHistory, &RelatedSeeds, &Environment, &cold];
    if let Some(p) = replay {
        if let Err(e) = replay_file(env, &subs, p, &mut report) {
            eprintln!("harness: {}", e);
            return 2;
        }
        return finish(env, report, &META);
    }
    // Three groups of sub-checks run side by side (each phase ends with a few slow Falcon-1024
    // generations that would otherwise leave most workers idle); their reports are merged.
    let (ra, rb, rc) = std::thread::scope(|sc| {
        let a = sc.spawn(|| {
            let mut report = Report::new();
            replay_corpus(env, &subs, &mut report);
            drive(env, &ApiHistory, env.tier.pick(32, 1_000), &mut report);
            report
        });
        let b = sc.spawn(|| {
            let mut report = Report::new();
            // all 256 bit positions of some seeds (complete over the bit index)
            let (s512, s1024_bits) = env.tier.pick((1usize, 12usize), (4, 256));
            let seeds512 = api::seed_list(env.seed, 0xC15, s512);
            let seeds1024 = api::seed_list(env.seed, 0xC15_1024, 2);
            let mut flips: Vec<FlipCase> = vec![];
            for s in &seeds512 {
                for bit in 0..256 {
                    flips.push(FlipCase { n: 512, seed: seed_hex(s), bit });
                }
            }
            for (j, s) in seeds1024.iter().enumerate() {
                for t in 0..s1024_bits {
                    let bit = if s1024_bits == 256 { t } else { (mix(env.seed ^ (j as u64 * 1000 + t as u64)) % 256) as usize };
                    flips.push(FlipCase { n: 1024, seed: seed_hex(s), bit });
                }
            }
            // boundary seeds (all-zero, all-0xFF) of both variants: bits 0, 8 and 9 of each of the
            // eight 32-bit words - a seed that is offset, folded or clamped word-wise before it is
            // expanded loses bits exactly there
            for n in [512usize, 1024] {
                for fill in [0u8, 0xFF] {
                    for w in 0..8 {
                        if n == 1024 && w != 0 && w != 7 {
                            continue; // Falcon-1024 (five times the cost): first and last word only
                        }
                        for b in [0usize, 8, 9] {
                            flips.push(FlipCase { n, seed: seed_hex(&[fill; 32]), bit: 32 * w + b });
                        }
                    }
                }
            }
            // interleave so that the expensive 1024 cases are spread over the workers
            flips.sort_by_key(|f| mix(f.bit as u64 * 7 + f.n as u64));
            drive_enumerated(env, &BitFlip, flips.into_iter(), &mut report);
            drive(env, &History, env.tier.pick(10, 128), &mut report);
            drive(env, &RelatedSeeds, env.tier.pick(12, 400), &mut report);
            report
        });
        let c = sc.spawn(|| {
            let mut report = Report::new();
            drive(env, &Repeat, env.tier.pick(8, 400), &mut report);
            // seeds whose candidate polynomials draw the most / the least randomness under the current code
            let (scan512, scan1024, keep) = env.tier.pick((3000usize, 600usize, 4usize), (60_000, 10_000, 16));
            let mut greedy = greedy_seeds(env, 512, scan512, keep);
            greedy.extend(greedy_seeds(env, 1024, scan1024, keep / 2));
            report.extra.insert("greedy_prescreen".into(), json!({"seeds_scanned_512": scan512, "seeds_scanned_1024": scan1024, "kept": greedy.len()}));
            drive_enumerated(env, &Repeat, greedy.into_iter(), &mut report);
            drive(env, &ProcessHistory, env.tier.pick(6, 200), &mut report);
            drive(env, &Environment, env.tier.pick(4, 200), &mut report);
            report
        });
        (a.join().expect("group a"), b.join().expect("group b"), c.join().expect("group c"))
    });
    report.merge(ra);
    report.merge(rb);
    report.merge(rc);
    let covered: Vec<usize> = (0..256).filter(|b| report.stats.counters.contains_key(&format!("bit_position_covered_{:03}", b))).collect();
    report.extra.insert("seed_bit_positions_covered".into(), json!(covered.len()));
    report.stats.counters.retain(|k, _| !k.starts_with("bit_position_covered_"));
    // fresh processes whose threads make their first calls at the same moment
    report.notes.push(crate::coldstart::NOTE.to_string());
    drive(env, &cold, env.tier.pick(4, 100), &mut report);
    finish(env, report, &META)
}

/// `fvh hunt-fgmax <n> <first> <count> <min>`: seeds whose key has max |f_i|, |g_i| >= min.
pub fn hunt_fgmax(n: usize, first: u64, count: u64, min: i64) {
    let next = std::sync::atomic::AtomicU64::new(0);
    std::thread::scope(|sc| {
        for _ in 0..16 {
            sc.spawn(|| loop {
                let i = next.fetch_add(1, std::sync::atomic::Ordering::Relaxed);
                if i >= count {
                    break;
                }
                let seed = crate::util::seed32(0xF6_0000_0000 + first + i);
                let (sk, _) = api::keygen(n, seed);
                let (f, g, _, _) = sk.fg();
                let m = f.iter().chain(g.iter()).map(|x| x.abs()).max().unwrap_or(0);
                if m >= min {
                    println!("{} {} {}", n, hex(&seed), m);
                }
            });
        }
    });
}

/// `fvh hunt-d7 <n> <first> <count>`: seeds whose first SOLVABLE candidate has an F or G
/// coefficient at or beyond the limit of its 8-bit field (127 = largest accepted, 128.. = the key
/// generator must move on to another candidate), found by replaying the candidate loop through the
/// hooks. About one seed in 1500.
pub fn hunt_d7(n: usize, first: u64, count: u64) {
    use falcon_rust::verif_hooks::keygen_parts as kp;
    use rand::SeedableRng;
    let lim = (1i64 << (refimpl::params::params(n).fg_bits - 1)) - 1;
    let next = std::sync::atomic::AtomicU64::new(0);
    std::thread::scope(|sc| {
        for _ in 0..16 {
            sc.spawn(|| loop {
                let i = next.fetch_add(1, std::sync::atomic::Ordering::Relaxed);
                if i >= count {
                    break;
                }
                let seed = crate::util::seed32(0xD7_0000_0000 + first + i);
                let mut rng = rand::rngs::StdRng::from_seed(seed);
                let mut unsolvable = 0;
                for _ in 0..400 {
                    let f = kp::gen_poly(n, &mut rng);
                    let g = kp::gen_poly(n, &mut rng);
                    if f.iter().chain(g.iter()).any(|x| (*x as i64).abs() > lim) {
                        continue;
                    }
                    if refimpl::zq::evaluate_at_roots(&crate::util::to_i64(&f)).iter().any(|&x| x == 0) {
                        continue;
                    }
                    if kp::gram_schmidt_norm_squared(&f, &g) > 1.3689 * 12289.0 {
                        continue;
                    }
                    match kp::ntru_solve(&f, &g) {
                        None => {
                            unsolvable += 1;
                            continue;
                        }
                        Some((cf, cg)) => {
                            let (mx, mn) = (cf.iter().chain(cg.iter()).max().cloned().unwrap_or(0), cf.iter().chain(cg.iter()).min().cloned().unwrap_or(0));
                            if mx >= 127 || mn <= -127 {
                                println!("{} {} max={} min={} unsolvable_before={}", n, hex(&seed), mx, mn, unsolvable);
                            }
                            break;
                        }
                    }
                }
            });
        }
    });
}

/// Largest and smallest number of random bytes one candidate polynomial of the key generator
/// draws for this seed (candidates up to the first acceptable one), replayed through the hook with
/// a counting generator under the CURRENT code. Only selects inputs.
pub fn randomness_per_polynomial(n: usize, seed: [u8; 32]) -> (u64, u64, u32) {
    use falcon_rust::verif_hooks::keygen_parts as kp;
    use rand::{RngCore, SeedableRng};
    struct Counting {
        inner: rand::rngs::StdRng,
        bytes: u64,
    }
    impl RngCore for Counting {
        fn next_u32(&mut self) -> u32 {
            self.bytes += 4;
            self.inner.next_u32()
        }
        fn next_u64(&mut self) -> u64 {
            self.bytes += 8;
            self.inner.next_u64()
        }
        fn fill_bytes(&mut self, d: &mut [u8]) {
            self.bytes += d.len() as u64;
            self.inner.fill_bytes(d)
        }
        fn try_fill_bytes(&mut self, d: &mut [u8]) -> Result<(), rand::Error> {
            self.fill_bytes(d);
            Ok(())
        }
    }
    let lim = (1i64 << (refimpl::params::params(n).fg_bits - 1)) - 1;
    let mut rng = Counting { inner: rand::rngs::StdRng::from_seed(seed), bytes: 0 };
    let (mut most, mut least, mut polys) = (0u64, u64::MAX, 0u32);
    for _ in 0..200 {
        let b0 = rng.bytes;
        let f = kp::gen_poly(n, &mut rng);
        let b1 = rng.bytes;
        let g = kp::gen_poly(n, &mut rng);
        let b2 = rng.bytes;
        for d in [b1 - b0, b2 - b1] {
            most = most.max(d);
            least = least.min(d);
            polys += 1;
        }
        if f.iter().chain(g.iter()).any(|x| (*x as i64).abs() > lim) {
            continue;
        }
        if refimpl::zq::evaluate_at_roots(&crate::util::to_i64(&f)).iter().any(|&x| x == 0) {
            continue;
        }
        if kp::gram_schmidt_norm_squared(&f, &g) <= 1.3689 * 12289.0 {
            break;
        }
    }
    (most, least, polys)
}

/// The `keep` seeds with the largest and the `keep / 2` with the smallest per-polynomial
/// randomness consumption among `count` seeds derived from VERIF_SEED (each seed scanned on a thread of its own).
fn greedy_seeds(env: &Env, n: usize, count: usize, keep: usize) -> Vec<RepeatCase> {
    let seeds = api::seed_list(env.seed, 0x6EED ^ n as u64, count);
    let next = std::sync::atomic::AtomicUsize::new(0);
    let rows = std::sync::Mutex::new(Vec::with_capacity(count));
    std::thread::scope(|sc| {
        for _ in 0..env.workers.max(1) {
            sc.spawn(|| loop {
                let i = next.fetch_add(1, std::sync::atomic::Ordering::Relaxed);
                if i >= seeds.len() {
                    break;
                }
                // every seed on a thread of its own: whatever the code under test keeps per thread
                // must not colour the measurement of the next seed
                let seed = seeds[i];
                let r = std::thread::scope(|one| one.spawn(move || no_panic(|| randomness_per_polynomial(n, seed))).join());
                if let Ok(Ok((most, least, polys))) = r {
                    rows.lock().unwrap().push((most, least, polys, seed));
                }
            });
        }
    });
    let mut rows = rows.into_inner().unwrap();
    rows.sort();
    let mut out: Vec<RepeatCase> = rows.iter().rev().take(keep).map(|r| RepeatCase { n, seed: seed_hex(&r.3), rejected_candidates: r.2 / 2 }).collect();
    rows.sort_by_key(|r| r.1);
    out.extend(rows.iter().take(keep / 2).map(|r| RepeatCase { n, seed: seed_hex(&r.3), rejected_candidates: r.2 / 2 }));
    out
}

/// `fvh hunt-greedy <n> <first> <count>`: for each seed, the largest and smallest number of random
/// bytes one candidate polynomial of the key generator draws (replayed through the hook with a
/// counting generator, candidates up to the first acceptable one). Seeds in the far tails go to the
/// corpus: buffers, pools and budgets sized for the typical polynomial meet their limit there.
pub fn hunt_greedy(n: usize, first: u64, count: u64) {
    use falcon_rust::verif_hooks::keygen_parts as kp;
    use rand::{RngCore, SeedableRng};
    struct Counting {
        inner: rand::rngs::StdRng,
        bytes: u64,
    }
    impl RngCore for Counting {
        fn next_u32(&mut self) -> u32 {
            self.bytes += 4;
            self.inner.next_u32()
        }
        fn next_u64(&mut self) -> u64 {
            self.bytes += 8;
            self.inner.next_u64()
        }
        fn fill_bytes(&mut self, d: &mut [u8]) {
            self.bytes += d.len() as u64;
            self.inner.fill_bytes(d)
        }
        fn try_fill_bytes(&mut self, d: &mut [u8]) -> Result<(), rand::Error> {
            self.fill_bytes(d);
            Ok(())
        }
    }
    let lim = (1i64 << (refimpl::params::params(n).fg_bits - 1)) - 1;
    let next = std::sync::atomic::AtomicU64::new(0);
    std::thread::scope(|sc| {
        for _ in 0..16 {
            sc.spawn(|| loop {
                let i = next.fetch_add(1, std::sync::atomic::Ordering::Relaxed);
                if i >= count {
                    break;
                }
                let seed = crate::util::seed32(0x6EED_0000_0000 + first + i);
                let mut rng = Counting { inner: rand::rngs::StdRng::from_seed(seed), bytes: 0 };
                let (mut most, mut least, mut polys) = (0u64, u64::MAX, 0u32);
                for _ in 0..200 {
                    let b0 = rng.bytes;
                    let f = kp::gen_poly(n, &mut rng);
                    let b1 = rng.bytes;
                    let g = kp::gen_poly(n, &mut rng);
                    let b2 = rng.bytes;
                    for d in [b1 - b0, b2 - b1] {
                        most = most.max(d);
                        least = least.min(d);
                        polys += 1;
                    }
                    if f.iter().chain(g.iter()).any(|x| (*x as i64).abs() > lim) {
                        continue;
                    }
                    if refimpl::zq::evaluate_at_roots(&crate::util::to_i64(&f)).iter().any(|&x| x == 0) {
                        continue;
                    }
                    if kp::gram_schmidt_norm_squared(&f, &g) <= 1.3689 * 12289.0 {
                        break;
                    }
                }
                println!("{} {} most={} least={} polys={}", n, hex(&seed), most, least, polys);
            });
        }
    });
}
