//! C13 — the floating-point FFT layer is accurate; split and merge are inverse.

use falcon_rust::verif_hooks::{cfft, chadamard_mul, cifft, cmerge, csplit};
use proptest::prelude::*;
use serde::{Deserialize, Serialize};
use serde_json::json;
use std::path::Path;

use crate::engine::*;

/// The property's tolerance: relative 2^-30 of the operands' norms.
const TOL: f64 = 9.313225746154785e-10;

type C = (f64, f64);

fn real(v: &[f64]) -> Vec<C> {
    v.iter().map(|&x| (x, 0.0)).collect()
}

fn l2(v: &[f64]) -> f64 {
    v.iter().map(|x| x * x).sum::<f64>().sqrt()
}

fn max_dist(a: &[C], b: &[C]) -> f64 {
    a.iter().zip(b.iter()).map(|(x, y)| ((x.0 - y.0).powi(2) + (x.1 - y.1).powi(2)).sqrt()).fold(0.0, f64::max)
}

#[derive(Clone, Debug, Serialize, Deserialize)]
pub struct BasisCase {
    n: usize,
    i: usize,
}

pub struct Basis;

impl Sub for Basis {
    type Case = BasisCase;
    fn restrictable(&self) -> bool {
        true
    }
    fn name(&self) -> &'static str {
        "fft_basis_vectors"
    }
    fn strategy(&self, _env: &Env) -> BoxedStrategy<BasisCase> {
        (1u32..=10).prop_flat_map(|l| (Just(1usize << l), 0usize..(1usize << l))).prop_map(|(n, i)| BasisCase { n, i }).boxed()
    }
    fn check(&self, c: &BasisCase, st: &mut Stats) -> Result<(), Fail> {
        let n = c.n;
        let mut x = vec![0.0; n];
        x[1] = 1.0;
        let roots = cfft(&real(&x));
        // every evaluation point must be e^{i pi m / n} for an odd m, all m distinct
        let mut ms = Vec::with_capacity(n);
        for (k, r) in roots.iter().enumerate() {
            let ang = r.1.atan2(r.0);
            let m = (ang * n as f64 / std::f64::consts::PI).round() as i64;
            let want = ((std::f64::consts::PI * m as f64 / n as f64).cos(), (std::f64::consts::PI * m as f64 / n as f64).sin());
            let d = ((r.0 - want.0).powi(2) + (r.1 - want.1).powi(2)).sqrt();
            ensure!(m.rem_euclid(2) == 1 && d <= TOL, "fft:roots", "n = {}: evaluation point {} = ({}, {}) is {} away from the nearest e^(i pi m/n), m = {}", n, k, r.0, r.1, d, m);
            ms.push(m.rem_euclid(2 * n as i64));
        }
        if c.i == 1 {
            let mut s = ms.clone();
            s.sort();
            s.dedup();
            ensure!(s.len() == n, "fft:roots-distinct", "n = {}: evaluation points are not distinct", n);
        }
        let mut e = vec![0.0; n];
        e[c.i] = 1.0;
        let t = cfft(&real(&e));
        for k in 0..n {
            let ang = std::f64::consts::PI * ((ms[k] * c.i as i64) % (2 * n as i64)) as f64 / n as f64;
            let d = ((t[k].0 - ang.cos()).powi(2) + (t[k].1 - ang.sin()).powi(2)).sqrt();
            ensure!(d <= TOL, "fft:basis", "n = {}: fft(X^{})[{}] is {} away from the power of the evaluation point", n, c.i, k, d);
        }
        let back = cifft(&t);
        ensure!(max_dist(&back, &real(&e)) <= TOL, "fft:inverse", "n = {}: ifft(fft(X^{})) is off by {}", n, c.i, max_dist(&back, &real(&e)));
        st.nontrivial_enumerated += 1;
        st.count(&format!("basis_n{}", n));
        Ok(())
    }
}

#[derive(Clone, Debug, Serialize, Deserialize)]
pub struct ProductCase {
    /// numerators of a (|.| <= 2^14 * 2^shift_a) and b (|.| <= 2^10 * 2^shift_b)
    a: Vec<i64>,
    b: Vec<i64>,
    /// a_i = a[i] / 2^shift_a, b_i = b[i] / 2^shift_b  (dyadic rationals; 0 = integers)
    shift_a: u32,
    shift_b: u32,
    /// additional uniform scaling of the operands by 2^-scale_a, 2^-scale_b (0..60): the property
    /// bounds the error relative to the operands' norms, so it must hold at every scale
    #[serde(default)]
    scale_a: u32,
    #[serde(default)]
    scale_b: u32,
}

pub struct Product;

fn operand(n: usize, limit: i64) -> BoxedStrategy<Vec<i64>> {
    prop_oneof![
        5 => proptest::collection::vec(-limit..=limit, n),
        1 => prop_oneof![Just(limit), Just(-limit)].prop_map(move |x| vec![x; n]),
        1 => Just((0..n).map(|i| if i % 2 == 0 { limit } else { -limit }).collect::<Vec<i64>>()),
        2 => (0usize..n, prop_oneof![Just(limit), Just(-limit), -limit..=limit]).prop_map(move |(i, x)| {
            let mut v = vec![0i64; n];
            v[i] = x;
            v
        }),
        2 => proptest::collection::vec(-200i64..=200, n),
        // few-term polynomials at structured positions (0, n/4, n/2, 3n/4, n-1, anywhere): their
        // spectra take few distinct values or are constant up to conjugation - the shapes that data-
        // dependent shortcuts in a transform key on (round 12)
        3 => proptest::collection::vec(
            (prop_oneof![Just(0usize), Just(n / 2), Just(n / 4), Just(3 * n / 4), Just(n - 1), 0usize..n],
             prop_oneof![Just(limit), Just(-limit), -limit..=limit, -1000i64..=1000, Just(1i64), Just(-1i64)]),
            2..=4,
        )
        .prop_map(move |terms| {
            let mut v = vec![0i64; n];
            for (i, x) in terms {
                v[i] = x.clamp(-limit, limit);
            }
            v
        }),
    ]
    .boxed()
}

impl Sub for Product {
    type Case = ProductCase;
    fn restrictable(&self) -> bool {
        true
    }
    fn name(&self) -> &'static str {
        "fft_product"
    }
    fn strategy(&self, _env: &Env) -> BoxedStrategy<ProductCase> {
        let logn = prop_oneof![6 => 1u32..=8, 2 => Just(9u32), 2 => Just(10u32)];
        let scale = prop_oneof![5 => Just(0u32), 1 => 1u32..=60, 1 => Just(40u32)];
        (logn, prop_oneof![3 => Just(0u32), 1 => Just(20u32), 1 => 1u32..=20], prop_oneof![3 => Just(0u32), 1 => Just(20u32)], scale.clone(), scale)
            .prop_flat_map(|(l, sa, sb, ca, cb)| (operand(1 << l, (1i64 << 14) << sa), operand(1 << l, (1i64 << 10) << sb), Just(sa), Just(sb), Just(ca), Just(cb)))
            .prop_map(|(a, b, shift_a, shift_b, scale_a, scale_b)| ProductCase { a, b, shift_a, shift_b, scale_a, scale_b })
            .boxed()
    }
    fn check(&self, c: &ProductCase, st: &mut Stats) -> Result<(), Fail> {
        let n = c.a.len();
        if n < 2 || !n.is_power_of_two() || n > 1024 || c.b.len() != n || c.shift_a > 20 || c.shift_b > 20 || c.scale_a > 60 || c.scale_b > 60 {
            return Ok(());
        }
        // divisors are exact powers of two, so the operands are exactly representable
        let sa = 2f64.powi((c.shift_a + c.scale_a) as i32);
        let sb = 2f64.powi((c.shift_b + c.scale_b) as i32);
        if c.a.iter().any(|x| x.abs() > (1i64 << 14) << c.shift_a) || c.b.iter().any(|x| x.abs() > (1i64 << 10) << c.shift_b) {
            return Ok(()); // outside the magnitude range the property states
        }
        let af: Vec<f64> = c.a.iter().map(|&x| x as f64 / sa).collect();
        let bf: Vec<f64> = c.b.iter().map(|&x| x as f64 / sb).collect();
        let (na, nb) = (l2(&af), l2(&bf));
        let fa = cfft(&real(&af));
        let fb = cfft(&real(&bf));
        ensure!(cfft(&real(&af)) == fa, "fft:not-repeatable", "n = {}: a second fft(a) right after the first gives a different result", n);
        // round trip
        let back = cifft(&fa);
        let d = max_dist(&back, &real(&af));
        ensure!(d <= TOL * na.max(f64::MIN_POSITIVE), "fft:inverse", "n = {}: ifft(fft(a)) is off by {} (allowed {})", n, d, TOL * na);
        st.range("roundtrip_error_over_norm", if na > 0.0 { d / na } else { 0.0 });
        // product against the exact negacyclic product in i128
        let mut exact = vec![0i128; n];
        for i in 0..n {
            if c.a[i] == 0 {
                continue;
            }
            for j in 0..n {
                let t = c.a[i] as i128 * c.b[j] as i128;
                if i + j < n {
                    exact[i + j] += t;
                } else {
                    exact[i + j - n] -= t;
                }
            }
        }
        let want: Vec<C> = exact.iter().map(|&x| (x as f64 / (sa * sb), 0.0)).collect();
        let got = cifft(&chadamard_mul(&fa, &fb));
        let d = max_dist(&got, &want);
        ensure!(d <= TOL * (na * nb).max(f64::MIN_POSITIVE), "fft:product", "n = {}: ifft(fft(a).fft(b)) differs from the exact product by {} (allowed {})", n, d, TOL * na * nb);
        st.range("product_error_over_norms", if na * nb > 0.0 { d / (na * nb) } else { 0.0 });
        // split / merge
        let (f0, f1) = csplit(&fa);
        let merged = cmerge(&f0, &f1);
        let d = max_dist(&merged, &fa);
        let nf = l2(&fa.iter().flat_map(|c| [c.0, c.1]).collect::<Vec<f64>>());
        ensure!(d <= TOL * nf.max(f64::MIN_POSITIVE), "fft:split-merge", "n = {}: merge(split(F)) is off by {}", n, d);
        let even: Vec<f64> = af.iter().step_by(2).cloned().collect();
        let odd: Vec<f64> = af.iter().skip(1).step_by(2).cloned().collect();
        let (fe, fo) = if n >= 4 { (cfft(&real(&even)), cfft(&real(&odd))) } else { (real(&even), real(&odd)) };
        let d = max_dist(&f0, &fe).max(max_dist(&f1, &fo));
        ensure!(d <= TOL * nf.max(f64::MIN_POSITIVE), "fft:split", "n = {}: split(fft(a)) differs from (fft(a_even), fft(a_odd)) by {}", n, d);
        let at_limit = c.a.iter().any(|x| x.abs() == (1i64 << 14) << c.shift_a) || c.b.iter().any(|x| x.abs() == (1i64 << 10) << c.shift_b);
        if n >= 64 || at_limit {
            st.nontrivial(&(&c.a, &c.b, c.shift_a, c.shift_b, c.scale_a, c.scale_b));
        }
        if at_limit {
            st.count("operand_at_magnitude_limit");
        }
        if c.shift_a > 0 || c.shift_b > 0 {
            st.count("dyadic_rational_operands");
        }
        if c.scale_a > 0 || c.scale_b > 0 {
            st.count("uniformly_scaled_down_operands");
        }
        st.count(&format!("products_n{}", n));
        st.sample(if n >= 512 { "product_large" } else { "product_small" }, || json!({"n": n, "shift_a": c.shift_a, "shift_b": c.shift_b, "scale_a": c.scale_a, "scale_b": c.scale_b, "a_head": c.a.iter().take(4).collect::<Vec<_>>(), "b_head": c.b.iter().take(4).collect::<Vec<_>>()}));
        Ok(())
    }
}

/// Every two-term polynomial c + d X^k (all n, all k, a fixed set of (c, d)) against a fixed dense b:
/// complete in the position, so a shortcut keyed on one sparse shape cannot hide between samples.
#[derive(Clone, Debug, Serialize, Deserialize)]
pub struct TwoTermCase {
    n: usize,
    k: usize,
    c: i64,
    d: i64,
}

pub struct TwoTerm;

const TWO_TERM_VALUES: [(i64, i64); 6] = [(1000, 1), (1, 1), (3, -2), (16384, 16384), (-16384, 7), (1, 16384)];

impl Sub for TwoTerm {
    type Case = TwoTermCase;
    fn restrictable(&self) -> bool {
        true
    }
    fn name(&self) -> &'static str {
        "fft_two_term_polynomials"
    }
    fn strategy(&self, _env: &Env) -> BoxedStrategy<TwoTermCase> {
        (1u32..=10, 0usize..6).prop_flat_map(|(l, v)| (Just(1usize << l), 1usize..(1usize << l), Just(v))).prop_map(|(n, k, v)| TwoTermCase { n, k, c: TWO_TERM_VALUES[v].0, d: TWO_TERM_VALUES[v].1 }).boxed()
    }
    fn check(&self, c: &TwoTermCase, st: &mut Stats) -> Result<(), Fail> {
        let n = c.n;
        if n < 2 || !n.is_power_of_two() || n > 1024 || c.k == 0 || c.k >= n || c.c.abs() > 16384 || c.d.abs() > 16384 {
            return Ok(());
        }
        let mut a = vec![0i64; n];
        a[0] = c.c;
        a[c.k] = c.d;
        let b: Vec<i64> = (0..n).map(|j| ((j * 37 + c.k * 11) % 2049) as i64 - 1024).collect();
        let mut scratch = Stats::default();
        Product.check(&ProductCase { a: a.clone(), b, shift_a: 0, shift_b: 0, scale_a: 0, scale_b: 0 }, &mut scratch)
            .map_err(|f| Fail::new(format!("{}-two-term", f.key), format!("a = {} + {} X^{} (n = {}): {}", c.c, c.d, c.k, n, f.msg)))?;
        // and as the second operand: b = c' + d' X^k within the 2^10 range, a fixed and dense
        let mut b2 = vec![0i64; n];
        b2[0] = c.c.clamp(-1024, 1024);
        b2[c.k] = c.d.clamp(-1024, 1024);
        let a2: Vec<i64> = (0..n).map(|j| ((j * 8191 + c.k * 131) % 32769) as i64 - 16384).collect();
        Product.check(&ProductCase { a: a2, b: b2, shift_a: 0, shift_b: 0, scale_a: 0, scale_b: 0 }, &mut scratch)
            .map_err(|f| Fail::new(format!("{}-two-term-b", f.key), format!("b = {} + {} X^{} (n = {}): {}", c.c.clamp(-1024, 1024), c.d.clamp(-1024, 1024), c.k, n, f.msg)))?;
        st.nontrivial_enumerated += 1;
        if 2 * c.k == n {
            st.count("two_term_half_degree");
        }
        st.count(&format!("two_term_n{}", n));
        Ok(())
    }
}

/// The same low-degree real polynomials, zero-padded, in several lengths one after the other.
#[derive(Clone, Debug, Serialize, Deserialize)]
pub struct SeqCase {
    a_low: Vec<i64>,
    b_low: Vec<i64>,
    dims: Vec<u32>,
}

pub struct Sequence;

impl Sub for Sequence {
    type Case = SeqCase;
    fn restrictable(&self) -> bool {
        true
    }
    fn name(&self) -> &'static str {
        "fft_same_operands_sequence"
    }
    fn strategy(&self, _env: &Env) -> BoxedStrategy<SeqCase> {
        (proptest::collection::vec(-16384i64..=16384, 1..=8), proptest::collection::vec(-1024i64..=1024, 1..=8), proptest::collection::vec(3u32..=10, 2..=5)).prop_map(|(a_low, b_low, dims)| SeqCase { a_low, b_low, dims }).boxed()
    }
    fn check(&self, c: &SeqCase, st: &mut Stats) -> Result<(), Fail> {
        if c.a_low.len() > 8 || c.b_low.len() > 8 || c.dims.iter().any(|&l| !(3..=10).contains(&l)) {
            return Ok(());
        }
        let product = Product;
        for (step, &l) in c.dims.iter().enumerate() {
            let n = 1usize << l;
            let mut a = vec![0i64; n];
            let mut b = vec![0i64; n];
            a[..c.a_low.len()].copy_from_slice(&c.a_low);
            b[..c.b_low.len()].copy_from_slice(&c.b_low);
            let case = ProductCase { a, b, shift_a: 0, shift_b: 0, scale_a: 0, scale_b: 0 };
            let mut scratch = Stats::default();
            product.check(&case, &mut scratch).map_err(|f| Fail::new(format!("{}-in-sequence", f.key), format!("call {} (n = {}, after lengths {:?}, low-degree operands): {}", step, n, &c.dims[..step], f.msg)))?;
        }
        st.count("same_operand_sequences");
        st.nontrivial(&(&c.a_low, &c.b_low, &c.dims));
        st.sample("sequence", || json!({"a_low": c.a_low, "b_low": c.b_low, "lengths": c.dims.iter().map(|l| 1usize << l).collect::<Vec<_>>()}));
        Ok(())
    }
}

const META: Meta = Meta {
    rule: "complete enumeration of all basis vectors X^i for n = 2..1024 (every evaluation point fft(X)[k] within 2^-30 of e^(i pi m/n) for a distinct odd m computed by the harness with libm, fft(X^i)[k] within 2^-30 of its i-th power, round trip); proptest operands for n = 2..1024: a with |a_i| <= 2^14, b with |b_i| <= 2^10, integers or dyadic rationals k/2^s (s <= 20), optionally scaled down uniformly by 2^-1..2^-60 (the bound is relative to the operands' norms, so it must hold at every scale), uniform / constant / alternating / single spike at the magnitude limit / small / two to four terms at structured positions (0, n/4, n/2, 3n/4, n-1, anywhere); complete enumeration of the two-term polynomials c + d X^k for every n = 2..1024, every k and six (c, d), as first and as second operand against a fixed dense partner; the same low-degree operands zero-padded to 2-5 lengths in sequence on one thread; oracle = exact negacyclic product in i128 converted to f64; tolerance = the property's 2^-30 relative to the operands' norms. Non-trivial = n >= 64 or an operand at the magnitude limit (hash-distinct); basis vectors are distinct by construction.",
    assumptions: &[
        "oracle: exact integer product (i128) and libm sin/cos; tolerance 2^-30 as the property states (the implementation achieves about 1e-15, so honest rounding cannot trip it)",
    ],
};

pub fn run(env: &Env, replay: Option<&Path>) -> i32 {
    let mut report = Report::new();
    let cold = crate::coldstart::ColdStart("C13");
    let subs: [&dyn DynSub; 5] = [&Basis, &Product, &Sequence, &cold, &TwoTerm];
    if let Some(p) = replay {
        if let Err(e) = replay_file(env, &subs, p, &mut report) {
            eprintln!("harness: {}", e);
            return 2;
        }
        return finish(env, report, &META);
    }
    replay_corpus(env, &subs, &mut report);
    let b = (1u32..=10).flat_map(|l| (0..(1usize << l)).map(move |i| BasisCase { n: 1 << l, i }));
    drive_enumerated(env, &Basis, b, &mut report);
    let tt = (1u32..=10).flat_map(|l| (1..(1usize << l)).flat_map(move |k| TWO_TERM_VALUES.iter().map(move |&(c, d)| TwoTermCase { n: 1 << l, k, c, d })));
    drive_enumerated(env, &TwoTerm, tt, &mut report);
    drive(env, &Product, env.tier.pick(60_000, 600_000), &mut report);
    drive(env, &Sequence, env.tier.pick(10_000, 200_000), &mut report);
    // fresh processes whose threads make their first calls at the same moment
    report.notes.push(crate::coldstart::NOTE.to_string());
    drive(env, &cold, env.tier.pick(240, 6000), &mut report);
    finish(env, report, &META)
}
