//! fvh — the verification harness for aszepieniec/falcon-rust.
//!
//!   fvh <ID> quick|thorough          generated search for property <ID>, writes evidence/<ID>.json
//!   fvh <ID> --replay <file>         run one stored case through the same oracle
//!   fvh child <what> ...             helper re-executions (cross-process steps of C08 / C15)

#[macro_use]
mod engine;
mod util;

mod api;
mod c01;
mod c02;
mod c03;
mod c04;
mod c05;
mod c06;
mod c07;
mod c08;
mod c09;
mod c10;
mod c11;
mod c12;
mod c13;
mod c14;
mod c15;
mod c16;
mod c17;
mod child;
mod coldstart;
mod fuzzglue;
include!("fuzzbody.rs");
mod gen;
mod machine;
mod pq;

use engine::{Env, Tier};
use std::path::PathBuf;

fn usage() -> ! {
    eprintln!("usage: fvh <C01..C17> quick|thorough | fvh <ID> --replay <file>");
    std::process::exit(2);
}

fn main() {
    let args: Vec<String> = std::env::args().collect();
    if args.len() < 3 {
        usage();
    }
    if args[1] == "child" {
        std::process::exit(child::main(&args[2..]));
    }
    if args[1] == "hunt-c04" {
        c04::hunt(args[2].parse().unwrap(), args[3].parse().unwrap(), args[4].parse().unwrap());
        return;
    }
    if args[1] == "hunt-c15" {
        c15::hunt(args[2].parse().unwrap(), args[3].parse().unwrap(), args[4].parse().unwrap(), args[5].parse().unwrap());
        return;
    }
    if args[1] == "hunt-late" {
        c15::hunt_late(args[2].parse().unwrap(), args[3].parse().unwrap(), args[4].parse().unwrap());
        return;
    }
    if args[1] == "hunt-c14" {
        c14::hunt(args[2].parse().unwrap(), args[3].parse().unwrap());
        return;
    }
    if args[1] == "hunt-hzero" {
        c05::hunt_hzero(args[2].parse().unwrap(), args[3].parse().unwrap(), args[4].parse().unwrap());
        return;
    }
    if args[1] == "hunt-fgmax" {
        c15::hunt_fgmax(args[2].parse().unwrap(), args[3].parse().unwrap(), args[4].parse().unwrap(), args[5].parse().unwrap());
        return;
    }
    if args[1] == "hunt-root0" {
        c04::hunt_root0(args[2].parse().unwrap(), args[3].parse().unwrap(), args[4].parse().unwrap());
        return;
    }
    if args[1] == "hunt-noninv" {
        c04::hunt_noninv(args[2].parse().unwrap(), args[3].parse().unwrap(), args[4].parse().unwrap());
        return;
    }
    if args[1] == "hunt-greedy" {
        c15::hunt_greedy(args[2].parse().unwrap(), args[3].parse().unwrap(), args[4].parse().unwrap());
        return;
    }
    if args[1] == "hunt-d7" {
        c15::hunt_d7(args[2].parse().unwrap(), args[3].parse().unwrap(), args[4].parse().unwrap());
        return;
    }
    if args[1] == "hunt-refkey" {
        c16::hunt_refkey(args[2].parse().unwrap(), args[3].parse().unwrap());
        return;
    }
    if args[1] == "hunt-lastbyte" {
        c05::hunt_lastbyte(args[2].parse().unwrap(), args[3].parse().unwrap(), args[4].parse().unwrap());
        return;
    }
    if args[1] == "hunt-c05" {
        // fvh hunt-c05 <n> <first> <count>
        c05::hunt(args[2].parse().unwrap(), args[3].parse().unwrap(), args[4].parse().unwrap());
        return;
    }
    engine::install_quiet_panic_hook();
    if args[1] == "fuzz-seeds" && args.len() >= 4 {
        let seed: u64 = std::env::var("VERIF_SEED").ok().and_then(|s| s.trim().parse::<i64>().ok()).map(|x| x as u64).unwrap_or(0);
        std::process::exit(fuzzglue::write_seeds(&args[2], std::path::Path::new(&args[3]), seed));
    }
    if args[1] == "fuzz-triage" && args.len() >= 3 {
        std::process::exit(fuzzglue::triage(&args[2], &args[3..]));
    }
    let verif_dir = PathBuf::from(std::env::var("VERIF_DIR").unwrap_or_else(|_| "/verif".into()));
    let seed: u64 = std::env::var("VERIF_SEED").ok().and_then(|s| s.trim().parse::<i64>().ok()).map(|x| x as u64).unwrap_or(0);
    let workers: usize = std::env::var("VERIF_WORKERS").ok().and_then(|s| s.parse().ok()).unwrap_or(16);
    let (tier, replay) = match args[2].as_str() {
        "quick" => (Tier::Quick, None),
        "thorough" => (Tier::Thorough, None),
        "--replay" => {
            if args.len() < 4 {
                usage();
            }
            (Tier::Quick, Some(PathBuf::from(&args[3])))
        }
        _ => usage(),
    };
    let prop: &'static str = Box::leak(args[1].clone().into_boxed_str());
    if let Some(path) = &replay {
        // a raw libFuzzer artifact rather than a JSON case?
        let is_json = std::fs::read(path).ok().and_then(|b| serde_json::from_slice::<serde_json::Value>(&b).ok()).map(|v| v.get("case").is_some()).unwrap_or(false);
        if !is_json {
            std::process::exit(fuzzglue::replay_raw(prop, path));
        }
    }
    let env = Env { prop, tier, seed, workers, known: engine::load_known(&verif_dir), verif_dir, strict_replay: replay.is_some() };
    let code = match prop {
        "C01" => c01::run(&env, replay.as_deref()),
        "C02" => c02::run(&env, replay.as_deref()),
        "C03" => c03::run(&env, replay.as_deref()),
        "C04" => c04::run(&env, replay.as_deref()),
        "C05" => c05::run(&env, replay.as_deref()),
        "C06" => c06::run(&env, replay.as_deref()),
        "C07" => c07::run(&env, replay.as_deref()),
        "C15" => c15::run(&env, replay.as_deref()),
        "C14" => c14::run(&env, replay.as_deref()),
        "C08" => c08::run(&env, replay.as_deref()),
        "C17" => c17::run(&env, replay.as_deref()),
        "C16" => c16::run(&env, replay.as_deref()),
        "C10" => c10::run(&env, replay.as_deref()),
        "C09" => c09::run(&env, replay.as_deref()),
        "C11" => c11::run(&env, replay.as_deref()),
        "C13" => c13::run(&env, replay.as_deref()),
        "C12" => c12::run(&env, replay.as_deref()),
        _ => {
            eprintln!("unknown property {}", prop);
            2
        }
    };
    std::process::exit(code);
}
