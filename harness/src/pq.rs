//! The reference implementation (PQClean, through the `pqcrypto-falcon` crate) on byte strings.

use pqcrypto_traits::sign::{DetachedSignature as _, PublicKey as _, SecretKey as _};

/// (public key bytes, secret key bytes); uses the operating system's randomness.
pub fn keypair(n: usize) -> (Vec<u8>, Vec<u8>) {
    match n {
        512 => {
            let (pk, sk) = pqcrypto_falcon::falcon512::keypair();
            (pk.as_bytes().to_vec(), sk.as_bytes().to_vec())
        }
        1024 => {
            let (pk, sk) = pqcrypto_falcon::falcon1024::keypair();
            (pk.as_bytes().to_vec(), sk.as_bytes().to_vec())
        }
        _ => panic!("harness: n must be 512 or 1024"),
    }
}

/// Detached signature bytes (header 0x30|logn, 40-byte nonce, compressed s2), or None when the
/// key bytes have the wrong length.
pub fn sign(n: usize, msg: &[u8], sk: &[u8]) -> Option<Vec<u8>> {
    match n {
        512 => {
            let sk = pqcrypto_falcon::falcon512::SecretKey::from_bytes(sk).ok()?;
            Some(pqcrypto_falcon::falcon512::detached_sign(msg, &sk).as_bytes().to_vec())
        }
        1024 => {
            let sk = pqcrypto_falcon::falcon1024::SecretKey::from_bytes(sk).ok()?;
            Some(pqcrypto_falcon::falcon1024::detached_sign(msg, &sk).as_bytes().to_vec())
        }
        _ => panic!("harness: n must be 512 or 1024"),
    }
}

/// None when the byte strings cannot even be handed to the verifier (wrong lengths).
pub fn verify(n: usize, sig: &[u8], msg: &[u8], pk: &[u8]) -> Option<bool> {
    match n {
        512 => {
            let pk = pqcrypto_falcon::falcon512::PublicKey::from_bytes(pk).ok()?;
            let sig = pqcrypto_falcon::falcon512::DetachedSignature::from_bytes(sig).ok()?;
            Some(pqcrypto_falcon::falcon512::verify_detached_signature(&sig, msg, &pk).is_ok())
        }
        1024 => {
            let pk = pqcrypto_falcon::falcon1024::PublicKey::from_bytes(pk).ok()?;
            let sig = pqcrypto_falcon::falcon1024::DetachedSignature::from_bytes(sig).ok()?;
            Some(pqcrypto_falcon::falcon1024::verify_detached_signature(&sig, msg, &pk).is_ok())
        }
        _ => panic!("harness: n must be 512 or 1024"),
    }
}
