//! C12 — arithmetic modulo q = 12289 is exact and canonical.
//! Complete enumeration of the finite domain against i64 arithmetic with rem_euclid;
//! batch inversion on generated vectors.

use falcon_rust::verif_hooks::felt;
use proptest::prelude::*;
use serde::{Deserialize, Serialize};
use serde_json::json;
use std::path::Path;

use crate::engine::*;

const Q: i64 = 12289;

/// One row of a binary operation table: `a op b` for all b in [0, q) (or only `b` when given).
#[derive(Clone, Debug, Serialize, Deserialize)]
pub struct BinRow {
    op: String,
    a: i16,
    b: Option<i16>,
}

struct FeltBin;

impl Sub for FeltBin {
    type Case = BinRow;
    fn restrictable(&self) -> bool {
        true
    }
    fn name(&self) -> &'static str {
        "felt_binop"
    }
    fn strategy(&self, _env: &Env) -> BoxedStrategy<BinRow> {
        (prop_oneof![Just("add"), Just("sub"), Just("mul")], 0i16..Q as i16, 0i16..Q as i16)
            .prop_map(|(op, a, b)| BinRow { op: op.to_string(), a, b: Some(b) })
            .boxed()
    }
    fn check(&self, c: &BinRow, st: &mut Stats) -> Result<(), Fail> {
        let f: fn(i16, i16) -> i16 = match c.op.as_str() {
            "add" => felt::add,
            "sub" => felt::sub,
            "mul" => felt::mul,
            _ => return Err(Fail::new("harness:bad-replay", "unknown op")),
        };
        let a = c.a as i64;
        let range = match c.b {
            Some(b) => b..b + 1,
            None => 0..Q as i16,
        };
        let mut nontrivial = 0;
        for b in range {
            let want = match c.op.as_str() {
                "add" => (a + b as i64).rem_euclid(Q),
                "sub" => (a - b as i64).rem_euclid(Q),
                _ => (a * b as i64).rem_euclid(Q),
            };
            let got = f(c.a, b) as i64;
            if got != want {
                return Err(Fail::new(format!("felt:{}", c.op), format!("{} {} {} = {} but the library returns {}", a, c.op, b, want, got))
                    .with_minimal(json!({"op": c.op, "a": c.a, "b": b})));
            }
            if a != 0 && b != 0 {
                nontrivial += 1;
            }
        }
        if c.b.is_none() {
            st.evaluations += Q as u64 - 1;
            st.nontrivial_enumerated += nontrivial;
            st.add(&format!("pairs_{}", c.op), Q as u64);
        } else if nontrivial > 0 {
            st.nontrivial(&(c.op.clone(), c.a, c.b));
        }
        st.sample(&format!("binop_{}", c.op), || json!({"op": c.op, "a": c.a, "b": c.b, "note": "b = null means all b in [0,q)"}));
        Ok(())
    }
}

/// A unary operation on one input.
#[derive(Clone, Debug, Serialize, Deserialize)]
pub struct UnCase {
    op: String,
    v: i16,
}

struct FeltUn;

impl Sub for FeltUn {
    type Case = UnCase;
    fn restrictable(&self) -> bool {
        true
    }
    fn name(&self) -> &'static str {
        "felt_unop"
    }
    fn strategy(&self, _env: &Env) -> BoxedStrategy<UnCase> {
        prop_oneof![
            any::<i16>().prop_map(|v| UnCase { op: "new".into(), v }),
            (prop_oneof![Just("neg"), Just("inv"), Just("balanced")], 0i16..Q as i16).prop_map(|(op, v)| UnCase { op: op.to_string(), v }),
        ]
        .boxed()
    }
    fn check(&self, c: &UnCase, st: &mut Stats) -> Result<(), Fail> {
        let v = c.v as i64;
        let bad = |what: String| Err(Fail::new(format!("felt:{}", c.op), what));
        match c.op.as_str() {
            "new" => {
                // a panic inside is reported by the engine as a failure of this case
                let got = felt::new(c.v) as i64;
                let want = v.rem_euclid(Q);
                if got != want {
                    return bad(format!("new({}) must be the canonical representative {} but is {}", v, want, got));
                }
                if v < 0 || v >= Q {
                    st.nontrivial_enumerated += 1;
                }
            }
            "neg" => {
                let got = felt::neg(c.v) as i64;
                if got != (-v).rem_euclid(Q) {
                    return bad(format!("-{} = {} but the library returns {}", v, (-v).rem_euclid(Q), got));
                }
                st.nontrivial_enumerated += (v != 0) as u64;
            }
            "inv" => {
                let got = felt::inv(c.v) as i64;
                if !(0..Q).contains(&got) {
                    return bad(format!("inverse of {} is {}, outside [0,q)", v, got));
                }
                if v == 0 {
                    if got != 0 {
                        return bad(format!("inverse-or-zero of 0 is {}", got));
                    }
                } else if (got * v).rem_euclid(Q) != 1 {
                    return bad(format!("{} * {} != 1 mod q", v, got));
                }
                st.nontrivial_enumerated += (v != 0) as u64;
            }
            "balanced" => {
                let got = felt::balanced(c.v) as i64;
                if !(-6144..=6144).contains(&got) || (got - v).rem_euclid(Q) != 0 {
                    return bad(format!("centred representative of {} is {}", v, got));
                }
                st.nontrivial_enumerated += (v != 0) as u64;
            }
            _ => return Err(Fail::new("harness:bad-replay", "unknown op")),
        }
        st.count(&format!("unop_{}", c.op));
        st.sample(&format!("unop_{}", c.op), || json!({"op": c.op, "v": c.v}));
        Ok(())
    }
}

/// Batch inversion: residues with zeros at generated positions.
#[derive(Clone, Debug, Serialize, Deserialize)]
pub struct BatchCase {
    v: Vec<i16>,
}

struct BatchInv;

impl Sub for BatchInv {
    type Case = BatchCase;
    fn restrictable(&self) -> bool {
        true
    }
    fn name(&self) -> &'static str {
        "felt_batch_inverse"
    }
    fn strategy(&self, _env: &Env) -> BoxedStrategy<BatchCase> {
        let elem = prop_oneof![3 => 1i16..Q as i16, 1 => Just(0i16), 1 => prop_oneof![Just(1i16), Just(12288i16), Just(6144i16), Just(6145i16)]];
        let len = prop_oneof![4 => 0usize..8, 4 => 8usize..200, 1 => Just(512usize), 1 => Just(1024usize)];
        len.prop_flat_map(move |n| proptest::collection::vec(elem.clone(), n)).prop_map(|v| BatchCase { v }).boxed()
    }
    fn check(&self, c: &BatchCase, st: &mut Stats) -> Result<(), Fail> {
        let got = felt::batch_inv(&c.v);
        ensure!(got.len() == c.v.len(), "felt:batch_inv", "length {} -> {}", c.v.len(), got.len());
        for (i, (&x, &y)) in c.v.iter().zip(got.iter()).enumerate() {
            let (x, y) = (x as i64, y as i64);
            let ok = (0..Q).contains(&y) && if x == 0 { y == 0 } else { (x * y).rem_euclid(Q) == 1 };
            ensure!(ok, "felt:batch_inv", "element {}: batch inverse of {} is {}", i, x, y);
        }
        let zeros = c.v.iter().filter(|&&x| x == 0).count();
        if zeros > 0 && zeros < c.v.len() {
            st.nontrivial(&c.v);
            st.count("batch_with_zeros");
        }
        st.count("batch_vectors");
        st.sample("batch_inverse", || json!({"len": c.v.len(), "zeros": zeros, "head": c.v.iter().take(8).collect::<Vec<_>>()}));
        Ok(())
    }
}

/// Every operation applied twice in a row to the same operands, by all workers at once: the
/// operations are pure functions, so the second answer must equal the first and both must be right,
/// also while other threads are computing with other operands (memoised results, shared scratch).
#[derive(Clone, Debug, Serialize, Deserialize)]
pub struct RepeatCase {
    start: u16,
    stride: u16,
    count: u32,
}

struct ConcurrentRepeat;

impl Sub for ConcurrentRepeat {
    type Case = RepeatCase;
    fn name(&self) -> &'static str {
        "felt_repeated_under_concurrency"
    }
    fn strategy(&self, _env: &Env) -> BoxedStrategy<RepeatCase> {
        (any::<u16>(), 1u16..5000, Just(20_000u32)).prop_map(|(start, stride, count)| RepeatCase { start, stride, count }).boxed()
    }
    fn check(&self, c: &RepeatCase, st: &mut Stats) -> Result<(), Fail> {
        let q = Q as u32;
        for i in 0..c.count.min(1_000_000) {
            let a = ((c.start as u32 + i * c.stride as u32) % q) as i16;
            let b = ((c.start as u32 * 7 + i * 13) % q) as i16;
            let (a64, b64) = (a as i64, b as i64);
            for round in 0..2 {
                let inv = felt::inv(a) as i64;
                let ok = (0..Q).contains(&inv) && if a == 0 { inv == 0 } else { (inv * a64).rem_euclid(Q) == 1 };
                ensure!(ok, "felt:inv", "inverse of {} is {} on call {} of two consecutive calls (other threads are inverting other residues)", a, inv, round + 1);
                ensure!(felt::mul(a, b) as i64 == (a64 * b64).rem_euclid(Q), "felt:mul", "{} * {} wrong on call {} of two consecutive calls under concurrency", a, b, round + 1);
                ensure!(felt::add(a, b) as i64 == (a64 + b64).rem_euclid(Q), "felt:add", "{} + {} wrong on repeated call under concurrency", a, b);
                ensure!(felt::sub(a, b) as i64 == (a64 - b64).rem_euclid(Q), "felt:sub", "{} - {} wrong on repeated call under concurrency", a, b);
                ensure!(felt::neg(a) as i64 == (-a64).rem_euclid(Q), "felt:neg", "-{} wrong on repeated call under concurrency", a);
                ensure!(felt::new(a - b) as i64 == (a64 - b64).rem_euclid(Q), "felt:new", "conversion of {} wrong on repeated call under concurrency", a - b);
            }
        }
        st.evaluations += c.count as u64 * 12;
        st.add("operations_repeated_under_concurrency", c.count as u64 * 12);
        st.nontrivial(&(c.start, c.stride));
        st.sample("repeat", || json!({"start": c.start, "stride": c.stride, "count": c.count}));
        Ok(())
    }
}

const META: Meta = Meta {
    rule: "complete enumeration: all (a,b) in [0,q)^2 for add/sub/mul, all a in [0,q) for neg/inverse/centred value, all 65536 i16 inputs of the conversion; non-trivial = operands non-zero (for the conversion: input outside [0,q)); these are distinct by construction. Repeated calls: 16 workers at once apply every operation twice in a row to generated residues (20 000 residues per case) - pure functions must repeat their answer whatever other threads compute. Batch inversion: proptest vectors of length 0..1024 with zeros at generated positions, non-trivial = contains both zero and non-zero entries (distinct by hash).",
    assumptions: &[
        "oracle: i64 arithmetic with rem_euclid",
        "the hook wrappers construct field elements from canonical residues without reducing them",
    ],
};

pub fn run(env: &Env, replay: Option<&Path>) -> i32 {
    let mut report = Report::new();
    let cold = crate::coldstart::ColdStart("C12");
    let subs: [&dyn DynSub; 5] = [&FeltBin, &FeltUn, &BatchInv, &ConcurrentRepeat, &cold];
    if let Some(p) = replay {
        if let Err(e) = replay_file(env, &subs, p, &mut report) {
            eprintln!("harness: {}", e);
            return 2;
        }
        return finish(env, report, &META);
    }
    replay_corpus(env, &subs, &mut report);
    // complete enumerations (both tiers)
    let rows = ["add", "sub", "mul"].into_iter().flat_map(|op| (0..Q as i16).map(move |a| BinRow { op: op.to_string(), a, b: None }));
    drive_enumerated(env, &FeltBin, rows, &mut report);
    let un = (i16::MIN..=i16::MAX)
        .map(|v| UnCase { op: "new".into(), v })
        .chain(["neg", "inv", "balanced"].into_iter().flat_map(|op| (0..Q as i16).map(move |v| UnCase { op: op.to_string(), v })));
    drive_enumerated(env, &FeltUn, un, &mut report);
    report.exhaustive = true;
    report.notes.push("exhaustive applies to the five element operations and the i16 conversion; batch inversion is sampled".into());
    drive(env, &BatchInv, env.tier.pick(20_000, 400_000), &mut report);
    drive(env, &ConcurrentRepeat, env.tier.pick(160, 3_200), &mut report);
    // fresh processes whose threads make their first calls at the same moment
    report.notes.push(crate::coldstart::NOTE.to_string());
    drive(env, &cold, env.tier.pick(240, 6000), &mut report);
    finish(env, report, &META)
}
