//! C17 — Babai size reduction preserves the NTRU equation and both versions agree.

use falcon_rust::math::{babai_reduce_bigint, babai_reduce_i32};
use falcon_rust::polynomial::Polynomial;
use num::BigInt;
use proptest::prelude::*;
use serde::{Deserialize, Serialize};
use serde_json::json;
use std::path::Path;

use crate::engine::*;
use crate::util::mix;
use refimpl::zq::negacyclic_mul_exact;

#[derive(Clone, Debug, Serialize, Deserialize)]
pub struct BabaiCase {
    f: Vec<i32>,
    g: Vec<i32>,
    cap_f: Vec<i32>,
    cap_g: Vec<i32>,
}

pub struct Babai;

// ---- exact recovery of k with D = k * f over Z[X]/(X^n+1), through a 62-bit NTT prime

fn mulmod(a: u64, b: u64, p: u64) -> u64 {
    ((a as u128 * b as u128) % p as u128) as u64
}

fn powmod(mut b: u64, mut e: u64, p: u64) -> u64 {
    let mut r = 1u64;
    b %= p;
    while e > 0 {
        if e & 1 == 1 {
            r = mulmod(r, b, p);
        }
        b = mulmod(b, b, p);
        e >>= 1;
    }
    r
}

fn is_prime(n: u64) -> bool {
    if n < 2 {
        return false;
    }
    for p in [2u64, 3, 5, 7, 11, 13, 17, 19, 23, 29, 31, 37] {
        if n % p == 0 {
            return n == p;
        }
    }
    let (mut d, mut r) = (n - 1, 0);
    while d % 2 == 0 {
        d /= 2;
        r += 1;
    }
    'witness: for a in [2u64, 3, 5, 7, 11, 13, 17, 19, 23, 29, 31, 37] {
        let mut x = powmod(a, d, n);
        if x == 1 || x == n - 1 {
            continue;
        }
        for _ in 0..r - 1 {
            x = mulmod(x, x, n);
            if x == n - 1 {
                continue 'witness;
            }
        }
        return false;
    }
    true
}

/// (p, psi): a prime p = 1 mod 2048 just below 2^62 (index selects which one) and a primitive
/// 2048-th root of unity modulo p, both found by search.
fn ntt_prime(index: usize) -> (u64, u64) {
    let mut k = (1u64 << 62) / 2048;
    let mut found = 0;
    loop {
        k -= 1;
        let p = k * 2048 + 1;
        if is_prime(p) {
            if found == index {
                for x in 2u64.. {
                    let r = powmod(x, (p - 1) / 2048, p);
                    if powmod(r, 1024, p) == p - 1 {
                        return (p, r);
                    }
                }
            }
            found += 1;
        }
    }
}

fn evaluate(a: &[i64], p: u64, psi2048: u64) -> Vec<u64> {
    // evaluations at psi^(2k+1), psi a primitive 2n-th root: twist, then a recursive cyclic DFT
    let n = a.len();
    let psi = powmod(psi2048, (2048 / (2 * n)) as u64, p);
    let mut tw = Vec::with_capacity(n);
    let mut w = 1u64;
    for &c in a {
        let c = c.rem_euclid(p as i64) as u64;
        tw.push(mulmod(c, w, p));
        w = mulmod(w, psi, p);
    }
    dft(&tw, mulmod(psi, psi, p), p)
}

fn dft(a: &[u64], omega: u64, p: u64) -> Vec<u64> {
    let n = a.len();
    if n == 1 {
        return vec![a[0]];
    }
    let even: Vec<u64> = a.iter().step_by(2).cloned().collect();
    let odd: Vec<u64> = a.iter().skip(1).step_by(2).cloned().collect();
    let w2 = mulmod(omega, omega, p);
    let (e, o) = (dft(&even, w2, p), dft(&odd, w2, p));
    let mut out = vec![0u64; n];
    let mut w = 1u64;
    for k in 0..n / 2 {
        let t = mulmod(w, o[k], p);
        out[k] = (e[k] + t) % p;
        out[k + n / 2] = (e[k] + p - t) % p;
        w = mulmod(w, omega, p);
    }
    out
}

fn interpolate(e: &[u64], p: u64, psi2048: u64) -> Vec<i64> {
    let n = e.len();
    let psi = powmod(psi2048, (2048 / (2 * n)) as u64, p);
    let inv = |x: u64| powmod(x, p - 2, p);
    let c = dft(e, inv(mulmod(psi, psi, p)), p);
    let ninv = inv(n as u64);
    let psi_inv = inv(psi);
    let mut w = 1u64;
    c.iter()
        .map(|&x| {
            let v = mulmod(mulmod(x, ninv, p), w, p);
            w = mulmod(w, psi_inv, p);
            if v > p / 2 {
                v as i64 - p as i64
            } else {
                v as i64
            }
        })
        .collect()
}

fn negacyclic_mul_i128(a: &[i64], b: &[i64]) -> Vec<i128> {
    let n = a.len();
    let mut acc = vec![0i128; n];
    for i in 0..n {
        if a[i] == 0 {
            continue;
        }
        for j in 0..n {
            let t = a[i] as i128 * b[j] as i128;
            if i + j < n {
                acc[i + j] += t;
            } else {
                acc[i + j - n] -= t;
            }
        }
    }
    acc
}

/// Some(k) with d = k * a exactly (|k| < 2^60, verified in i128), None if no such integer
/// polynomial exists; Err if a is not invertible modulo the helper primes (inconclusive).
fn exact_quotient(d: &[i64], a: &[i64]) -> Result<Option<Vec<i64>>, ()> {
    for idx in 0..2 {
        let (p, psi) = ntt_prime(idx);
        let ea = evaluate(a, p, psi);
        if ea.iter().any(|&x| x == 0) {
            continue;
        }
        let ed = evaluate(d, p, psi);
        let q: Vec<u64> = ed.iter().zip(ea.iter()).map(|(x, y)| mulmod(*x, powmod(*y, p - 2, p), p)).collect();
        let k = interpolate(&q, p, psi);
        let back = negacyclic_mul_i128(&k, a);
        return Ok(if back.iter().zip(d.iter()).all(|(x, y)| *x == *y as i128) { Some(k) } else { None });
    }
    Err(())
}

fn small_poly(n: usize) -> BoxedStrategy<Vec<i32>> {
    let sigma = 1.17 * (12289.0 / (2.0 * n as f64)).sqrt();
    prop_oneof![
        4 => any::<u64>().prop_map(move |seed| {
            let mut s = seed;
            (0..n).map(|_| {
                // sum of 12 uniforms, scaled to the key generation width, clamped to 127
                let mut acc = 0.0;
                for _ in 0..12 { s = mix(s); acc += (s >> 11) as f64 / 9007199254740992.0 - 0.5; }
                ((acc * sigma).round() as i32).clamp(-127, 127)
            }).collect()
        }),
        2 => proptest::collection::vec(-6i32..=6, n),
        1 => proptest::collection::vec(-127i32..=127, n),
        1 => (proptest::collection::vec((0usize..n, -127i32..=127), 1..=3.min(n))).prop_map(move |es| {
            let mut v = vec![0i32; n];
            for (i, c) in es { v[i] = c; }
            v
        }),
    ]
    .boxed()
}

impl Sub for Babai {
    type Case = BabaiCase;
    fn restrictable(&self) -> bool {
        true
    }
    fn name(&self) -> &'static str {
        "babai_reduce"
    }
    fn max_shrink_iters(&self) -> u32 {
        256
    }
    fn strategy(&self, env: &Env) -> BoxedStrategy<BabaiCase> {
        // `large` is set by the driver through the tier-independent split below
        let logn = if env.strict_replay { (1u32..=10).boxed() } else { (1u32..=6).boxed() };
        case_strategy(logn)
    }
    fn check(&self, c: &BabaiCase, st: &mut Stats) -> Result<(), Fail> {
        check_case(c, st)
    }
}

/// The same check on n = 128..1024 (fewer cases: the big-integer version costs tens of ms per
/// iteration there).
pub struct BabaiLarge;

impl Sub for BabaiLarge {
    type Case = BabaiCase;
    fn restrictable(&self) -> bool {
        true
    }
    fn name(&self) -> &'static str {
        "babai_reduce_large_n"
    }
    fn max_shrink_iters(&self) -> u32 {
        32
    }
    fn strategy(&self, _env: &Env) -> BoxedStrategy<BabaiCase> {
        case_strategy((7u32..=10).boxed())
    }
    fn check(&self, c: &BabaiCase, st: &mut Stats) -> Result<(), Fail> {
        check_case(c, st)
    }
}

/// (f, g) sharing a small factor that nearly vanishes at some roots of X^n + 1 (powers of 1 + X,
/// 1 - X, 1 + X^2, ...): the floating-point quotient of the reduction is then ill-conditioned.
fn common_factor_pair(n: usize) -> BoxedStrategy<(Vec<i32>, Vec<i32>)> {
    let factor = prop_oneof![
        Just(vec![1i64, 1]), Just(vec![1i64, 2, 1]), Just(vec![1i64, 3, 3, 1]), Just(vec![1i64, -1]), Just(vec![1i64, -2, 1]),
        Just(vec![1i64, 0, 1]), Just(vec![1i64, 1, 1]), Just(vec![1i64, -1, 1]), Just(vec![1i64, 0, 2, 0, 1]),
    ];
    let tiny = proptest::collection::vec(-2i64..=2, 1..=4);
    (factor, tiny.clone(), tiny, 0usize..4)
        .prop_map(move |(p, a, b, shift)| {
            let embed = |v: &[i64], sh: usize| {
                let mut out = vec![0i64; n];
                for (i, &c) in v.iter().enumerate() {
                    let j = (i + sh) % (2 * n);
                    if j < n {
                        out[j] += c;
                    } else {
                        out[j - n] -= c;
                    }
                }
                out
            };
            let pe = embed(&p, 0);
            let f = negacyclic_mul_exact(&pe, &embed(&a, 0));
            let g = negacyclic_mul_exact(&pe, &embed(&b, shift));
            (f.iter().map(|&x| x.clamp(-127, 127) as i32).collect(), g.iter().map(|&x| x.clamp(-127, 127) as i32).collect())
        })
        .boxed()
}

fn case_strategy(logn: BoxedStrategy<u32>) -> BoxedStrategy<BabaiCase> {
    logn.prop_flat_map(|l| {
        let n = 1usize << l;
        let kmag = prop_oneof![1 => Just(0i64), 2 => 1i64..=4, 6 => (0u32..=20).prop_map(|b| 1i64 << b)];
        // ill-conditioned pairs can cost the big-integer version seconds per case at n >= 512
        let common_weight = if n >= 512 { 1 } else { 10 };
        let fg = prop_oneof![40 => (small_poly(n), small_poly(n)), common_weight => common_factor_pair(n)];
        // (F0, G0): small, or uniform below 2^b
        let f0bits = prop_oneof![3 => Just(0u32), 2 => 8u32..=22];
        (fg, small_poly(n), small_poly(n), f0bits, kmag, any::<u64>(), prop_oneof![8 => Just(false), 1 => Just(true)], prop_oneof![12 => Just(false), 1 => Just(true)])
    })
    .prop_map(|((f, mut g), f0, g0, f0bits, kmag, kseed, unrelated, zero)| {
        let n = f.len();
        if f.iter().all(|&x| x == 0) && g.iter().all(|&x| x == 0) {
            g[0] = 1;
        }
        let (f64v, g64v): (Vec<i64>, Vec<i64>) = (f.iter().map(|&x| x as i64).collect(), g.iter().map(|&x| x as i64).collect());
        if zero {
            return BabaiCase { f, g, cap_f: vec![0; n], cap_g: vec![0; n] };
        }
        let (f0, g0): (Vec<i64>, Vec<i64>) = if f0bits == 0 {
            (f0.iter().map(|&x| x as i64).collect(), g0.iter().map(|&x| x as i64).collect())
        } else {
            let lim = 1i64 << f0bits;
            let mut s = mix(kseed ^ 0xF0);
            let mut draw = || (0..n).map(|_| { s = mix(s); (s % (2 * lim as u64 + 1)) as i64 - lim }).collect::<Vec<i64>>();
            (draw(), draw())
        };
        let mut kmag = kmag;
        loop {
            let mut s = kseed;
            let (cf, cg): (Vec<i64>, Vec<i64>) = if unrelated {
                let lim = (kmag * 16).clamp(16, (1 << 24) - 1);
                let mut draw = || (0..n).map(|_| { s = mix(s); (s % (2 * lim as u64 + 1)) as i64 - lim }).collect::<Vec<i64>>();
                (draw(), draw())
            } else {
                let k: Vec<i64> = (0..n).map(|_| { s = mix(s); if kmag == 0 { 0 } else { (s % (2 * kmag as u64 + 1)) as i64 - kmag } }).collect();
                let kf = negacyclic_mul_exact(&k, &f64v);
                let kg = negacyclic_mul_exact(&k, &g64v);
                (kf.iter().zip(f0.iter()).map(|(a, b)| a + b).collect(), kg.iter().zip(g0.iter()).map(|(a, b)| a + b).collect())
            };
            let max = cf.iter().chain(cg.iter()).map(|x| x.abs()).max().unwrap_or(0);
            if max < (1 << 24) {
                return BabaiCase { f, g, cap_f: cf.iter().map(|&x| x as i32).collect(), cap_g: cg.iter().map(|&x| x as i32).collect() };
            }
            if kmag == 0 {
                // (F0, G0) alone is too large: fall back to the zero pair
                return BabaiCase { f, g, cap_f: vec![0; n], cap_g: vec![0; n] };
            }
            kmag /= 2;
        }
    })
    .boxed()
}

fn check_case(c: &BabaiCase, st: &mut Stats) -> Result<(), Fail> {
    let t0 = std::time::Instant::now();
    let r = check_case_inner(c, st);
    if std::env::var("VERIF_C17_TRACE").is_ok() && t0.elapsed().as_secs_f64() > 0.5 {
        eprintln!("slow case {:.1}s n={} f={:?} g={:?} maxFG={} -> {:?}", t0.elapsed().as_secs_f64(), c.f.len(), &c.f[..c.f.len().min(6)], &c.g[..c.g.len().min(8)], c.cap_f.iter().chain(c.cap_g.iter()).map(|x| x.abs()).max().unwrap_or(0), r.as_ref().err().map(|f| f.key.clone()));
    }
    r
}

fn check_case_inner(c: &BabaiCase, st: &mut Stats) -> Result<(), Fail> {
    let n = c.f.len();
    let in_domain = n >= 2
        && n <= 1024
        && n.is_power_of_two()
        && c.g.len() == n
        && c.cap_f.len() == n
        && c.cap_g.len() == n
        && c.f.iter().chain(c.g.iter()).all(|x| x.abs() <= 127)
        && c.f.iter().chain(c.g.iter()).any(|&x| x != 0)
        && c.cap_f.iter().chain(c.cap_g.iter()).all(|x| x.abs() < (1 << 24));
    if !in_domain {
        return Ok(());
    }
    let to64 = |v: &Vec<i32>| v.iter().map(|&x| x as i64).collect::<Vec<i64>>();
    let (f, g, cf, cg) = (to64(&c.f), to64(&c.g), to64(&c.cap_f), to64(&c.cap_g));
    // the big-integer version
    let bf = Polynomial::new(c.f.iter().map(|&x| BigInt::from(x)).collect::<Vec<_>>());
    let bg = Polynomial::new(c.g.iter().map(|&x| BigInt::from(x)).collect::<Vec<_>>());
    let mut b_f = Polynomial::new(c.cap_f.iter().map(|&x| BigInt::from(x)).collect::<Vec<_>>());
    let mut b_g = Polynomial::new(c.cap_g.iter().map(|&x| BigInt::from(x)).collect::<Vec<_>>());
    let rb = no_panic(|| babai_reduce_bigint(&bf, &bg, &mut b_f, &mut b_g)).map_err(|p| Fail::new(format!("babai:bigint-panic:{}", panic_site(&p)), format!("babai_reduce_bigint panicked: {}", p)))?;
    let big_to_i64 = |p: &Polynomial<BigInt>| -> Option<Vec<i64>> { p.coefficients.iter().map(|x| i64::try_from(x).ok()).collect() };
    let (bfv, bgv) = match (big_to_i64(&b_f), big_to_i64(&b_g)) {
        (Some(x), Some(y)) => (x, y),
        _ => return Err(Fail::new("babai:bigint-grows", "the big-integer version returned coefficients beyond 64 bits")),
    };
    // How large is the integer multiplier k the reduction needs (recovered exactly from the
    // big-integer version's result)? The 32-bit version carries k in an i32 and k (f, g) in a
    // 30-bit prime field; ill-conditioned (f, g) need multipliers far beyond that.
    let k_needed: Option<i64> = {
        let df: Vec<i64> = cf.iter().zip(bfv.iter()).map(|(x, y)| x - y).collect();
        let dg: Vec<i64> = cg.iter().zip(bgv.iter()).map(|(x, y)| x - y).collect();
        let (num, den) = if f.iter().any(|&x| x != 0) { (&df, &f) } else { (&dg, &g) };
        match exact_quotient(num, den) {
            Ok(Some(k)) => Some(k.iter().map(|x| x.abs()).max().unwrap_or(0)),
            _ => None,
        }
    };
    let beyond_i32 = k_needed.map(|k| k >= (1i64 << 29)).unwrap_or(false);
    let class_key = |plain: &str| if beyond_i32 { "babai:i32-multiplier-beyond-30-bit-field".to_string() } else { plain.to_string() };
    let k_note = match k_needed {
        Some(k) => format!("; the multiplier the reduction needs has max |k| = {} (about 2^{:.1})", k, (k.max(1) as f64).log2()),
        None => String::new(),
    };
    // the 32-bit multi-modular version
    let pf = Polynomial::new(c.f.clone());
    let pg = Polynomial::new(c.g.clone());
    let mut a_f = Polynomial::new(c.cap_f.clone());
    let mut a_g = Polynomial::new(c.cap_g.clone());
    let ra = no_panic(|| babai_reduce_i32(&pf, &pg, &mut a_f, &mut a_g)).map_err(|p| Fail::new(class_key(&format!("babai:i32-panic:{}", panic_site(&p))), format!("n = {}: babai_reduce_i32 panicked: {} (babai_reduce_bigint returns {}){}", n, p, if rb.is_ok() { "Ok" } else { "Err" }, k_note)))?;
    let (af, ag) = (to64(&a_f.coefficients), to64(&a_g.coefficients));
    // 1. agreement
    ensure!(ra.is_ok() == rb.is_ok(), &class_key("babai:ok-err-disagree"), "n = {}: the 32-bit version returns {} but the big-integer version returns {}{}", n, if ra.is_ok() { "Ok" } else { "Err" }, if rb.is_ok() { "Ok" } else { "Err" }, k_note);
    if ra.is_ok() {
        let pos = (0..n).find(|&i| af[i] != bfv[i] || ag[i] != bgv[i]);
        ensure!(pos.is_none(), &class_key("babai:results-differ"), "n = {}: the two versions return different reduced pairs (first difference at coefficient {}: F' {} vs {}, G' {} vs {}){}", n, pos.unwrap_or(0), af[pos.unwrap_or(0)], bfv[pos.unwrap_or(0)], ag[pos.unwrap_or(0)], bgv[pos.unwrap_or(0)], k_note);
    } else {
        st.count("both_err(iteration_cap)");
    }
    if beyond_i32 {
        st.count("inputs_needing_a_multiplier_beyond_2^29");
    }
    // 2. the change is an integer-polynomial multiple of (f, g), for each version's own result
    for (name, rf, rg) in [("i32", &af, &ag), ("bigint", &bfv, &bgv)] {
        let df: Vec<i64> = cf.iter().zip(rf.iter()).map(|(x, y)| x - y).collect();
        let dg: Vec<i64> = cg.iter().zip(rg.iter()).map(|(x, y)| x - y).collect();
        // NTRU quantity preserved: f G' - g F' = f G - g F   <=>   f dG = g dF
        let lhs = negacyclic_mul_exact(&f, &dg);
        let rhs = negacyclic_mul_exact(&g, &df);
        ensure!(lhs == rhs, &format!("babai:{}-changes-ntru-quantity", name), "n = {}: {} version: f G' - g F' differs from f G - g F", n, name);
        let (num, den, other_num, other_den) = if f.iter().any(|&x| x != 0) { (&df, &f, &dg, &g) } else { (&dg, &g, &df, &f) };
        match exact_quotient(num, den) {
            Ok(Some(k)) => {
                ensure!(negacyclic_mul_exact(&k, other_den) == *other_num, &format!("babai:{}-not-a-multiple", name), "n = {}: {} version: (F - F', G - G') is not k (f, g) for one integer polynomial k", n, name);
                if name == "i32" && k.iter().any(|&x| x != 0) && n >= 8 {
                    st.nontrivial(&(&c.f, &c.g, &c.cap_f, &c.cap_g));
                    st.range("log2_max_abs_k", (k.iter().map(|x| x.abs()).max().unwrap_or(1) as f64).log2());
                }
            }
            Ok(None) => return Err(Fail::new(format!("babai:{}-not-a-multiple", name), format!("n = {}: {} version: F - F' is not an integer-polynomial multiple of f", n, name))),
            Err(()) => st.count("quotient_inconclusive(f_not_invertible_mod_helper_primes)"),
        }
    }
    // 3. a second reduction is the identity
    if ra.is_ok() {
        let mut a2_f = a_f.clone();
        let mut a2_g = a_g.clone();
        let r2 = no_panic(|| babai_reduce_i32(&pf, &pg, &mut a2_f, &mut a2_g)).map_err(|p| Fail::new(format!("babai:i32-panic:{}", panic_site(&p)), format!("second reduction panicked: {}", p)))?;
        ensure!(r2.is_ok() && a2_f.coefficients == a_f.coefficients && a2_g.coefficients == a_g.coefficients, "babai:not-idempotent", "n = {}: reducing the reduced pair again changes it (or fails)", n);
        let mut b2_f = b_f.clone();
        let mut b2_g = b_g.clone();
        let r2 = no_panic(|| babai_reduce_bigint(&bf, &bg, &mut b2_f, &mut b2_g)).map_err(|p| Fail::new(format!("babai:bigint-panic:{}", panic_site(&p)), format!("second reduction panicked: {}", p)))?;
        ensure!(r2.is_ok() && b2_f.coefficients == b_f.coefficients && b2_g.coefficients == b_g.coefficients, "babai:not-idempotent", "n = {}: big-integer version: reducing the reduced pair again changes it (or fails)", n);
    }
    let max_in = cf.iter().chain(cg.iter()).map(|x| x.abs()).max().unwrap_or(0);
    st.count(&format!("cases_n{}", n));
    st.range("log2_max_abs_input_F_G", ((max_in.max(1)) as f64).log2());
    st.sample(if n >= 128 { "babai_large" } else { "babai" }, || json!({"n": n, "f_head": c.f.iter().take(4).collect::<Vec<_>>(), "F_head": c.cap_f.iter().take(4).collect::<Vec<_>>(), "max_abs_FG": max_in, "ok": ra.is_ok()}));
    Ok(())
}

/// The same small basis (f, g), zero-padded, reduced in several ring dimensions one after the
/// other on one thread (growing, shrinking, repeated): each call must satisfy the property on its
/// own, whatever was reduced before it.
#[derive(Clone, Debug, Serialize, Deserialize)]
pub struct SeqCase {
    f_low: Vec<i32>,
    g_low: Vec<i32>,
    /// log2 of the ring dimension of each call
    dims: Vec<u32>,
    kmag: i64,
    seed: u64,
}

pub struct BabaiSequence;

impl Sub for BabaiSequence {
    type Case = SeqCase;
    fn restrictable(&self) -> bool {
        true
    }
    fn name(&self) -> &'static str {
        "babai_same_basis_sequence"
    }
    fn max_shrink_iters(&self) -> u32 {
        128
    }
    fn strategy(&self, _env: &Env) -> BoxedStrategy<SeqCase> {
        let low = proptest::collection::vec(-9i32..=9, 2..=4);
        (low.clone(), low, proptest::collection::vec(2u32..=7, 2..=4), prop_oneof![Just(0i64), Just(3i64), (4u32..=16).prop_map(|b| 1i64 << b)], any::<u64>())
            .prop_map(|(f_low, g_low, dims, kmag, seed)| SeqCase { f_low, g_low, dims, kmag, seed })
            .boxed()
    }
    fn check(&self, c: &SeqCase, st: &mut Stats) -> Result<(), Fail> {
        if c.f_low.len() > 4 || c.g_low.len() > 4 || c.dims.iter().any(|&l| !(2..=10).contains(&l)) || c.f_low.iter().chain(c.g_low.iter()).all(|&x| x == 0) {
            return Ok(());
        }
        for (step, &l) in c.dims.iter().enumerate() {
            let n = 1usize << l;
            let mut f = vec![0i32; n];
            let mut g = vec![0i32; n];
            f[..c.f_low.len()].copy_from_slice(&c.f_low);
            g[..c.g_low.len()].copy_from_slice(&c.g_low);
            let (f64v, g64v): (Vec<i64>, Vec<i64>) = (f.iter().map(|&x| x as i64).collect(), g.iter().map(|&x| x as i64).collect());
            let mut s = mix(c.seed ^ step as u64);
            let k: Vec<i64> = (0..n).map(|_| { s = mix(s); if c.kmag == 0 { 0 } else { (s % (2 * c.kmag as u64 + 1)) as i64 - c.kmag } }).collect();
            let f0: Vec<i64> = (0..n).map(|_| { s = mix(s); (s % 41) as i64 - 20 }).collect();
            let g0: Vec<i64> = (0..n).map(|_| { s = mix(s); (s % 41) as i64 - 20 }).collect();
            let cf: Vec<i64> = negacyclic_mul_exact(&k, &f64v).iter().zip(f0.iter()).map(|(a, b)| a + b).collect();
            let cg: Vec<i64> = negacyclic_mul_exact(&k, &g64v).iter().zip(g0.iter()).map(|(a, b)| a + b).collect();
            if cf.iter().chain(cg.iter()).any(|x| x.abs() >= 1 << 24) {
                continue;
            }
            let case = BabaiCase { f, g, cap_f: cf.iter().map(|&x| x as i32).collect(), cap_g: cg.iter().map(|&x| x as i32).collect() };
            check_case(&case, st).map_err(|fail| Fail::new(fail.key, format!("call {} of the sequence (n = {}, same low-degree basis as the previous calls in dimensions {:?}): {}", step, n, &c.dims[..step], fail.msg)))?;
        }
        st.count("same_basis_sequences");
        st.nontrivial(&(&c.f_low, &c.g_low, &c.dims, c.seed));
        st.sample("sequence", || json!({"f_low": c.f_low, "g_low": c.g_low, "dims": c.dims.iter().map(|l| 1usize << l).collect::<Vec<_>>()}));
        Ok(())
    }
}

const META: Meta = Meta {
    rule: "proptest (f, g, F, G) for n = 2..1024: f, g with |coefficients| <= 127, not both zero (Gaussian at the key-generation width, uniform in +-6, uniform in +-127, sparse, or an ill-conditioned pair f = p a, g = p b sharing a small factor p such as (1+X)^2 that nearly vanishes at roots of X^n+1); (F, G) = (F0, G0) + k (f, g) with (F0, G0) small or uniform below 2^8..2^22 and k an integer polynomial of magnitude 0, 1..4 or 2^0..2^20 (halved until every coefficient is below 2^24), or unrelated uniform (F, G), or F = G = 0. Oracle: both versions return the same Ok/Err and, when Ok, the same pair; for each version's own result f (G - G') = g (F - F') exactly (i64 schoolbook) and F - F' = k f, G - G' = k g for one integer polynomial k recovered modulo a 62-bit NTT prime and verified exactly; when Ok, a second reduction is the identity. Err from both (the documented 1000-iteration cap, reached on exact rounding ties) counts as agreement. A third sub-check reduces against the same low-degree basis, zero-padded, in 2-4 different ring dimensions consecutively on one thread. Non-trivial = n >= 8 and k != 0 (the input was not already reduced); distinct by hash.",
    assumptions: &[
        "oracle: exact i64 schoolbook products; quotient recovery modulo primes p = 1 mod 2048 just below 2^62 found by search (deterministic Miller-Rabin)",
        "the functions document an iteration cap and return Result; their caller resamples on Err",
    ],
};

pub fn run(env: &Env, replay: Option<&Path>) -> i32 {
    let mut report = Report::new();
    let subs: [&dyn DynSub; 3] = [&Babai, &BabaiLarge, &BabaiSequence];
    if let Some(p) = replay {
        if let Err(e) = replay_file(env, &subs, p, &mut report) {
            eprintln!("harness: {}", e);
            return 2;
        }
        return finish(env, report, &META);
    }
    replay_corpus(env, &subs, &mut report);
    drive(env, &Babai, env.tier.pick(40_000, 800_000), &mut report);
    drive(env, &BabaiLarge, env.tier.pick(2_400, 40_000), &mut report);
    drive(env, &BabaiSequence, env.tier.pick(6_000, 120_000), &mut report);
    finish(env, report, &META)
}
