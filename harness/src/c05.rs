//! C05 — keys and signatures survive serialisation: fixed sizes, exact round trip.

use proptest::prelude::*;
use rand::SeedableRng;
use serde::{Deserialize, Serialize};
use serde_json::json;
use std::path::Path;

use crate::api::{self, seed_from, seed_hex, Pk, Sig, Sk};
use crate::engine::*;
use crate::gen;
use crate::util::{hex, mix, to_i64, Hex};
use refimpl::keys;
use refimpl::params::params;

#[derive(Clone, Debug, Serialize, Deserialize)]
pub struct RoundTripCase {
    pub n: usize,
    pub seed: Hex,
    /// seeds for (message, signer randomness) pairs
    pub sigs: Vec<u64>,
    /// where the seed came from: "generated" | "corpus" | "prescreen"
    pub origin: String,
}

pub struct RoundTrip;

fn message_for(s: u64) -> Vec<u8> {
    let len = match s % 7 {
        0 => 0,
        1 => 1,
        2 => 96,
        3 => 1024,
        _ => (mix(s) % 200) as usize,
    };
    let mut x = s;
    (0..len)
        .map(|_| {
            x = mix(x);
            x as u8
        })
        .collect()
}

impl Sub for RoundTrip {
    type Case = RoundTripCase;
    fn restrictable(&self) -> bool {
        true
    }
    fn name(&self) -> &'static str {
        "serialisation_round_trip"
    }
    fn max_shrink_iters(&self) -> u32 {
        16
    }
    fn batch(&self) -> usize {
        1
    }
    fn strategy(&self, _env: &Env) -> BoxedStrategy<RoundTripCase> {
        (prop_oneof![4 => Just(512usize), 1 => Just(1024usize)], gen::seed_strategy(), proptest::collection::vec(any::<u64>(), 8))
            .prop_map(|(n, s, sigs)| RoundTripCase { n, seed: seed_hex(&s), sigs, origin: "generated".into() })
            .boxed()
    }
    fn check(&self, c: &RoundTripCase, st: &mut Stats) -> Result<(), Fail> {
        let seed = seed_from(&c.seed).ok_or_else(|| Fail::new("harness:bad-replay", "seed must be 32 bytes"))?;
        let n = c.n;
        let p = params(n);
        let (sk, pk) = api::keygen(n, seed);
        let (f, g, cf, cg) = sk.fg();
        let skb = sk.to_bytes();
        let pkb = pk.to_bytes();
        ensure!(skb.len() == p.sk_len, "ser:sk-size", "secret key is {} bytes, expected {}", skb.len(), p.sk_len);
        ensure!(pkb.len() == p.pk_len, "ser:pk-size", "public key is {} bytes, expected {}", pkb.len(), p.pk_len);
        // the fixed-width format must represent this key: an independent decoder reads back f, g, F
        let max_fg = f.iter().chain(g.iter()).map(|x| x.abs()).max().unwrap_or(0);
        let max_cf = cf.iter().map(|x| x.abs()).max().unwrap_or(0);
        let max_cg = cg.iter().map(|x| x.abs()).max().unwrap_or(0);
        match keys::decode_sk(&skb, n) {
            Ok((f2, g2, cf2)) => {
                ensure!(f2 == f && g2 == g && cf2 == cf, "ser:sk-not-representable", "the secret key bytes do not carry the generated (f, g, F): max|f,g| = {}, max|F| = {} (field widths {} / 8 bits)", max_fg, max_cf, p.fg_bits);
            }
            Err(e) => return Err(Fail::new("ser:sk-not-representable", format!("the secret key bytes are not a well-formed secret key ({:?}): max|f,g| = {}, max|F| = {}", e, max_fg, max_cf))),
        }
        // secret key round trip
        let sk2 = Sk::from_bytes(n, &skb).map_err(|e| Fail::new("ser:sk-decode", format!("from_bytes(to_bytes(sk)) fails: {} (max|F| = {}, max|G| = {})", e, max_cf, max_cg)))?;
        ensure!(sk2.same_as(&sk), "ser:sk-roundtrip", "from_bytes(to_bytes(sk)) != sk (max|f,g| = {}, max|F| = {}, max|G| = {})", max_fg, max_cf, max_cg);
        ensure!(sk2.to_bytes() == skb, "ser:sk-reencode", "re-encoding the decoded secret key changes the bytes");
        // public key round trip
        let pk2 = Pk::from_bytes(n, &pkb).map_err(|e| Fail::new("ser:pk-decode", format!("from_bytes(to_bytes(pk)) fails: {}", e)))?;
        ensure!(pk2.same_as(&pk), "ser:pk-roundtrip", "from_bytes(to_bytes(pk)) != pk");
        ensure!(pk2.to_bytes() == pkb, "ser:pk-reencode", "re-encoding the decoded public key changes the bytes");
        // signatures: made with the original key and with the decoded key
        for (i, &s) in c.sigs.iter().enumerate() {
            let msg = message_for(s);
            let signer = if i % 2 == 0 { &sk } else { &sk2 };
            let sig = api::sign_with(&msg, signer, Box::new(crate::util::chacha(s)));
            let sb = sig.to_bytes();
            ensure!(sb.len() == p.sig_len, "ser:sig-size", "signature is {} bytes, expected {}", sb.len(), p.sig_len);
            let sig2 = Sig::from_bytes(n, &sb).map_err(|e| Fail::new("ser:sig-decode", format!("from_bytes(to_bytes(sig)) fails: {}", e)))?;
            ensure!(sig2.same_as(&sig), "ser:sig-roundtrip", "from_bytes(to_bytes(sig)) != sig");
            ensure!(sig2.to_bytes() == sb, "ser:sig-reencode", "re-encoding the decoded signature changes the bytes");
            ensure!(api::verify(&msg, &sig2, &pk2), "ser:decoded-objects-verify", "signature {} ({}) does not verify after every object went through its bytes", i, if i % 2 == 0 { "original key" } else { "decoded key" });
            ensure!(refimpl::verify::spec_verify(&msg, &sb, &pkb, n), "ser:bytes-verify-spec", "the serialised triple is not accepted by the reference verifier");
            st.count("signatures_round_tripped");
        }
        let lim = (1i64 << (p.fg_bits - 1)) - 1;
        let near = max_cf >= 100 || max_cg >= 100 || max_fg + 2 >= lim;
        if near {
            st.count("keys_near_the_field_limits");
        }
        if near || c.origin != "generated" {
            st.nontrivial(&(n, seed));
        }
        st.count(&format!("keys_{}_{}", n, c.origin));
        st.range(&format!("max_abs_F_{}", n), max_cf as f64);
        st.range(&format!("max_abs_G_{}", n), max_cg as f64);
        st.range(&format!("max_abs_f_g_{}", n), max_fg as f64);
        st.sample(&format!("key_{}_{}", n, c.origin), || json!({"n": n, "seed": hex(&seed), "origin": c.origin, "max_abs_fg": max_fg, "max_abs_F": max_cf, "max_abs_G": max_cg}));
        Ok(())
    }
}

/// Pre-screen for Falcon-1024 (and 512): replay the key generator's own candidate loop through
/// the hooks and report whether the first candidate that passes the invertibility and
/// Gram-Schmidt filters has a coefficient outside the encodable range. Only selects inputs.
pub fn prescreen(n: usize, seed: [u8; 32]) -> Option<i64> {
    use falcon_rust::verif_hooks::keygen_parts as kp;
    let mut rng = rand::rngs::StdRng::from_seed(seed);
    let lim = (1i64 << (params(n).fg_bits - 1)) - 1;
    for _ in 0..200 {
        let f = kp::gen_poly(n, &mut rng);
        let g = kp::gen_poly(n, &mut rng);
        let max = f.iter().chain(g.iter()).map(|x| (*x as i64).abs()).max().unwrap_or(0);
        if refimpl::zq::evaluate_at_roots(&to_i64(&f)).iter().any(|&x| x == 0) {
            continue;
        }
        if kp::gram_schmidt_norm_squared(&f, &g) > 1.3689 * 12289.0 {
            continue;
        }
        return if max > lim { Some(max) } else { None };
    }
    None
}

const MACHINE_ORACLE: crate::machine::Oracle = crate::machine::Oracle::Serialisation;
const MACHINE_OPS: usize = 40;

/// The API history machine (harness/src/machine.rs) with this property's invariant.
pub struct ApiHistory;

impl Sub for ApiHistory {
    type Case = crate::machine::History;
    fn name(&self) -> &'static str {
        "api_history"
    }
    fn max_shrink_iters(&self) -> u32 {
        200
    }
    fn strategy(&self, _env: &Env) -> BoxedStrategy<crate::machine::History> {
        crate::machine::strategy(MACHINE_OPS)
    }
    fn check(&self, c: &crate::machine::History, st: &mut Stats) -> Result<(), Fail> {
        crate::machine::run(c, MACHINE_ORACLE, st)?;
        st.nontrivial(&format!("{:?}", c.ops));
        st.sample("api_history", || serde_json::json!({"variants": c.variants, "ops": c.ops.iter().take(12).collect::<Vec<_>>()}));
        Ok(())
    }
}

const META: Meta = Meta {
    rule: "proptest (variant, seed, 8 message/randomness seeds): random, all-zero, all-0xFF and single-bit seeds, the committed corpus seeds (found to generate out-of-range F or G before the repair) and pre-screened seeds (the key generator's candidate loop is replayed through the gen_poly / gram_schmidt_norm_squared hooks and seeds whose first accepted (f, g) candidate leaves the encodable range are kept; the property is then decided on the real keygen output). Oracle: exact sizes 1281/897/666 and 2305/1793/1280; from_bytes(to_bytes(x)) == x with byte-identical re-encoding for secret key, public key and every signature; an independent decoder (refimpl::keys) reads exactly the generated (f, g, F) from the secret-key bytes; signatures made alternately with the original and the decoded key verify (library verify on decoded objects, and reference verifier on the bytes). Non-trivial = a key with max|F| or max|G| >= 100 or max|f|,|g| within 2 of the field limit, or a corpus / pre-screened seed; distinct by (variant, seed).",
    assumptions: &[
        "api_history sub-check: generated histories of 6-60 operations over four in-place key slots (load a fresh object, regenerate, clone, encode/decode, drop, sign and verify on this or a fresh thread; messages include the empty one and two large ones of equal length), interpreted against the obvious model with this property's invariant",
        "oracle: refimpl::keys (secret-key format of specification section 3.11.5) and refimpl::verify",
        "signer randomness is supplied through the SignRng hook (seeded ChaCha) so that runs are reproducible",
    ],
};

pub fn run(env: &Env, replay: Option<&Path>) -> i32 {
    let mut report = Report::new();
    let subs: [&dyn DynSub; 2] = [&RoundTrip, &ApiHistory];
    if let Some(p) = replay {
        if let Err(e) = replay_file(env, &subs, p, &mut report) {
            eprintln!("harness: {}", e);
            return 2;
        }
        return finish(env, report, &META);
    }
    replay_corpus(env, &subs, &mut report);
    // pre-screened seeds
    let (cand1024, cand512) = env.tier.pick((400usize, 100usize), (40_000, 4_000));
    let cands: Vec<(usize, [u8; 32])> = api::seed_list(env.seed, 0xC05_1024, cand1024).into_iter().map(|s| (1024usize, s)).chain(api::seed_list(env.seed, 0xC05_512, cand512).into_iter().map(|s| (512usize, s))).collect();
    let hits = std::sync::Mutex::new(Vec::new());
    let next = std::sync::atomic::AtomicUsize::new(0);
    std::thread::scope(|sc| {
        for _ in 0..env.workers {
            sc.spawn(|| loop {
                let i = next.fetch_add(1, std::sync::atomic::Ordering::Relaxed);
                if i >= cands.len() {
                    break;
                }
                if let Ok(Some(max)) = no_panic(|| prescreen(cands[i].0, cands[i].1)) {
                    hits.lock().unwrap().push((cands[i].0, cands[i].1, max));
                }
            });
        }
    });
    let hits = hits.into_inner().unwrap();
    report.extra.insert("prescreen".into(), json!({"candidate_seeds_1024": cand1024, "candidate_seeds_512": cand512, "seeds_kept": hits.len(), "kept": hits.iter().map(|(n, s, m)| json!({"n": n, "seed": hex(s), "first_candidate_max_abs": m})).collect::<Vec<_>>()}));
    let pre = hits.iter().map(|(n, s, _)| RoundTripCase { n: *n, seed: seed_hex(s), sigs: vec![1, 2, 3, 4], origin: "prescreen".into() });
    drive_enumerated(env, &RoundTrip, pre, &mut report);
    drive(env, &RoundTrip, env.tier.pick(112, 7200), &mut report);
    drive(env, &ApiHistory, env.tier.pick(1_500, 60_000), &mut report);
    finish(env, report, &META)
}

/// `fvh C05 hunt <first> <count>`: print pre-screened seeds (used to grow the corpus).
pub fn hunt(n: usize, first: u64, count: u64) {
    let hits = std::sync::Mutex::new(Vec::new());
    let next = std::sync::atomic::AtomicU64::new(0);
    std::thread::scope(|sc| {
        for _ in 0..16 {
            sc.spawn(|| loop {
                let i = next.fetch_add(1, std::sync::atomic::Ordering::Relaxed);
                if i >= count {
                    break;
                }
                let s = crate::util::seed32(0xC05_0000_0000 + first + i);
                if let Some(m) = prescreen(n, s) {
                    println!("{} {} {}", n, hex(&s), m);
                    hits.lock().unwrap().push(s);
                }
            });
        }
    });
}

/// `fvh hunt-hzero <n> <first> <count>`: seeds whose public key h has a zero first or last coefficient.
pub fn hunt_hzero(n: usize, first: u64, count: u64) {
    let next = std::sync::atomic::AtomicU64::new(0);
    std::thread::scope(|sc| {
        for _ in 0..16 {
            sc.spawn(|| loop {
                let i = next.fetch_add(1, std::sync::atomic::Ordering::Relaxed);
                if i >= count {
                    break;
                }
                let seed = crate::util::seed32(0x420_0000_0000 + first + i);
                let (_, pk) = api::keygen(n, seed);
                if let Ok(h) = keys::decode_pk(&pk.to_bytes(), n) {
                    if h[n - 1] == 0 || h[0] == 0 {
                        println!("{} {} first={} last={}", n, hex(&seed), h[0], h[n - 1]);
                    }
                } else {
                    println!("{} {} undecodable-public-key", n, hex(&seed));
                }
            });
        }
    });
}

/// `fvh hunt-lastbyte <n> <first> <count>`: seeds whose public or secret key encoding ends (or whose
/// body starts) with a byte that text-oriented transports treat specially.
pub fn hunt_lastbyte(n: usize, first: u64, count: u64) {
    let special = [0x0au8, 0x0d, 0x00, 0x20, 0x09, 0xff, 0x1a, 0x3d, 0x2e, 0x5c];
    let next = std::sync::atomic::AtomicU64::new(0);
    std::thread::scope(|sc| {
        for _ in 0..16 {
            sc.spawn(|| loop {
                let i = next.fetch_add(1, std::sync::atomic::Ordering::Relaxed);
                if i >= count {
                    break;
                }
                let seed = crate::util::seed32(0x1A57_0000_0000 + first + i);
                let (sk, pk) = api::keygen(n, seed);
                let (pkb, skb) = (pk.to_bytes(), sk.to_bytes());
                let (pl, sl) = (*pkb.last().unwrap(), *skb.last().unwrap());
                if special.contains(&pl) || special.contains(&sl) || (pkb[pkb.len() - 2] == 0x0d && pl == 0x0a) {
                    println!("{} {} pk_last={:02x} sk_last={:02x}", n, hex(&seed), pl, sl);
                }
                // and a body that STARTS with 0x00 / 0xff (leading-zero stripping, sign extension)
                for (what, b) in [("pk", &pkb), ("sk", &skb)] {
                    if b[1] == 0x00 || b[1] == 0xff {
                        println!("{} {} {}_first={:02x}", n, hex(&seed), what, b[1]);
                    }
                }
            });
        }
    });
}
