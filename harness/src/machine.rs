//! A model-based history generator over the whole public API: key objects are created, cloned,
//! serialised and decoded, regenerated, overwritten in place and dropped while messages are signed
//! and verified with them, on the calling thread or on fresh threads. One interpreter, several
//! oracles: each property that quantifies over histories runs it with its own invariant.
//!
//! The model is the obvious one: a key object is identified by (variant, seed); a signature by the
//! (key, message) it was made for; verify(sig, key', msg') is true iff key' == key and msg' == msg.

use proptest::prelude::*;
use serde::{Deserialize, Serialize};
use std::collections::HashSet;

use crate::api::{self, Pk, Sig, Sk};
use crate::engine::{Fail, Stats};
use crate::util::{hex, mix};

pub const SLOTS: usize = 4;

#[derive(Clone, Debug, Serialize, Deserialize)]
pub enum Op {
    /// slot := a fresh object for key `k` (decoded from the key's bytes), overwriting in place
    Load { slot: usize, k: usize },
    /// slot := keygen(seed of key k) run again
    Regenerate { slot: usize, k: usize },
    /// dst := src.clone()
    Clone { src: usize, dst: usize },
    /// dst := from_bytes(to_bytes(src))
    RoundTrip { src: usize, dst: usize },
    /// empty the slot
    Drop { slot: usize },
    /// sign message m with the key object in the slot (in a fresh thread when `thread`)
    Sign { slot: usize, m: usize, thread: bool },
    /// verify an earlier signature (index into the list, modulo its length) against the public key
    /// derived from the object in `slot` and message m
    Verify { sig: usize, slot: usize, m: Option<usize>, thread: bool },
}

#[derive(Clone, Debug, Serialize, Deserialize)]
pub struct History {
    /// seed material: keys[k] = (variant, seed derived from base and k)
    pub base: u64,
    pub variants: Vec<usize>,
    pub ops: Vec<Op>,
}

pub fn strategy(max_ops: usize) -> BoxedStrategy<History> {
    let slot = 0usize..SLOTS;
    let op = prop_oneof![
        3 => (slot.clone(), 0usize..3).prop_map(|(slot, k)| Op::Load { slot, k }),
        1 => (slot.clone(), 0usize..3).prop_map(|(slot, k)| Op::Regenerate { slot, k }),
        2 => (slot.clone(), slot.clone()).prop_map(|(src, dst)| Op::Clone { src, dst }),
        2 => (slot.clone(), slot.clone()).prop_map(|(src, dst)| Op::RoundTrip { src, dst }),
        1 => slot.clone().prop_map(|slot| Op::Drop { slot }),
        8 => (slot.clone(), 0usize..6, prop_oneof![4 => Just(false), 1 => Just(true)]).prop_map(|(slot, m, thread)| Op::Sign { slot, m, thread }),
        6 => (any::<usize>(), slot, prop_oneof![1 => Just(None), 1 => (0usize..6).prop_map(Some)], prop_oneof![4 => Just(false), 1 => Just(true)]).prop_map(|(sig, slot, m, thread)| Op::Verify { sig, slot, m, thread }),
    ];
    let variants = proptest::collection::vec(prop_oneof![3 => Just(512usize), 1 => Just(1024usize)], 3);
    (any::<u64>(), variants, proptest::collection::vec(op, 6..max_ops)).prop_map(|(base, variants, ops)| History { base, variants, ops }).boxed()
}

/// Messages of a history: short ones, the empty one, and two LARGE ones of equal length.
pub fn message(base: u64, m: usize) -> Vec<u8> {
    let s = mix(base ^ 0x4d ^ m as u64);
    let len = match m {
        0 => 0,
        1 => 5000,
        2 => 5000,
        3 => 33,
        _ => (s % 64) as usize,
    };
    (0..len).map(|j| mix(s + j as u64) as u8).collect()
}

pub fn key_seed(base: u64, k: usize) -> [u8; 32] {
    // a small universe of seeds per run, so that the memoised key material is reused
    crate::util::seed32(mix(base % 4) ^ mix(0x6b65 + k as u64))
}

#[derive(Clone, Copy, PartialEq, Eq)]
pub enum Oracle {
    /// honest signatures verify under every object of their key (C01) and nothing else does (C02, by the model)
    Verification,
    /// objects that went through clone / bytes / regeneration are equal to and encode like the original (C05)
    Serialisation,
    /// all salts of the history are pairwise distinct (C08)
    Salts,
    /// regenerating a seed reproduces the bytes (C15)
    Determinism,
}

struct SigRec {
    key: (usize, usize),
    m: usize,
    sig: Sig,
    bytes: Vec<u8>,
}

pub fn run(h: &History, oracle: Oracle, st: &mut Stats) -> Result<(), Fail> {
    if h.variants.len() != 3 || h.variants.iter().any(|&n| n != 512 && n != 1024) {
        return Ok(());
    }
    // slots live in a fixed array: objects are overwritten in place (same address, different key)
    let mut slots: [Option<((usize, usize), Sk)>; SLOTS] = [None, None, None, None];
    let mut sigs: Vec<SigRec> = vec![];
    let mut salts: HashSet<Vec<u8>> = HashSet::new();
    let key_of = |k: usize| -> std::sync::Arc<api::Key> { api::key(h.variants[k % 3], key_seed(h.base, k % 3)) };
    for (i, op) in h.ops.iter().enumerate() {
        match op {
            Op::Load { slot, k } => {
                let key = key_of(*k);
                let sk = Sk::from_bytes(key.n, &key.sk_bytes).map_err(|e| Fail::new("machine:own-bytes", format!("step {}: a generated key's bytes do not decode: {}", i, e)))?;
                slots[*slot % SLOTS] = Some(((key.n, *k % 3), sk));
                st.count("machine_load");
            }
            Op::Regenerate { slot, k } => {
                let key = key_of(*k);
                // key generation costs 0.25-1.3 s: only the determinism oracle really runs it again
                let sk = if oracle == Oracle::Determinism {
                    let (sk, pk) = api::keygen(key.n, key.seed);
                    ensure!(sk.to_bytes() == key.sk_bytes && pk.to_bytes() == key.pk_bytes, "keygen:not-deterministic", "step {}: generating the Falcon-{} key of seed {} again in the middle of a history gives different bytes", i, key.n, hex(&key.seed));
                    st.count("machine_regenerate");
                    sk
                } else {
                    Sk::from_bytes(key.n, &key.sk_bytes).map_err(|e| Fail::new("machine:own-bytes", format!("step {}: a generated key's bytes do not decode: {}", i, e)))?
                };
                slots[*slot % SLOTS] = Some(((key.n, *k % 3), sk));
            }
            Op::Clone { src, dst } => {
                if let Some((id, sk)) = &slots[*src % SLOTS] {
                    let c = (*id, sk.clone());
                    if oracle == Oracle::Serialisation {
                        ensure!(c.1.same_as(sk) && c.1.to_bytes() == sk.to_bytes(), "ser:clone", "step {}: a cloned secret key differs from its original", i);
                    }
                    slots[*dst % SLOTS] = Some(c);
                    st.count("machine_clone");
                }
            }
            Op::RoundTrip { src, dst } => {
                if let Some((id, sk)) = &slots[*src % SLOTS] {
                    let b = sk.to_bytes();
                    let back = Sk::from_bytes(id.0, &b).map_err(|e| Fail::new("ser:sk-decode", format!("step {}: from_bytes(to_bytes(sk)) fails in the middle of a history: {}", i, e)))?;
                    if oracle == Oracle::Serialisation {
                        let key = key_of(id.1);
                        ensure!(b == key.sk_bytes, "ser:sk-bytes-drift", "step {}: the bytes of a key object changed over its history (clone / decode / sign)", i);
                        ensure!(back.same_as(sk) && back.to_bytes() == b, "ser:sk-roundtrip", "step {}: from_bytes(to_bytes(sk)) != sk in the middle of a history", i);
                        ensure!(back.public().to_bytes() == key.pk_bytes, "ser:pk-drift", "step {}: the public key derived from a decoded key object differs from the generated one", i);
                    }
                    slots[*dst % SLOTS] = Some((*id, back));
                    st.count("machine_round_trip");
                }
            }
            Op::Drop { slot } => {
                slots[*slot % SLOTS] = None;
            }
            Op::Sign { slot, m, thread } => {
                if let Some((id, sk)) = &slots[*slot % SLOTS] {
                    let msg = message(h.base, *m);
                    let sig = if *thread {
                        std::thread::scope(|sc| sc.spawn(|| api::sign(&msg, sk)).join()).map_err(|_| Fail::new("sign:panic", "sign panicked in a fresh thread"))?
                    } else {
                        api::sign(&msg, sk)
                    };
                    let bytes = sig.to_bytes();
                    if oracle == Oracle::Salts {
                        ensure!(bytes.len() > 41, "salt:sig-length", "signature of {} bytes", bytes.len());
                        let salt = bytes[1..41].to_vec();
                        ensure!(salts.insert(salt.clone()), "salt:repeated", "step {}: salt {} was already used earlier in this history (key object in slot {}, message {} of {} bytes{})", i, hex(&salt), slot % SLOTS, m, msg.len(), if *thread { ", fresh thread" } else { "" });
                    }
                    if oracle == Oracle::Verification {
                        let key = key_of(id.1);
                        ensure!(api::verify(&msg, &sig, &key.pk), "sign:does-not-verify", "step {}: a signature made by the object in slot {} (Falcon-{}, message {} of {} bytes{}) is rejected under the key's public key", i, slot % SLOTS, id.0, m, msg.len(), if *thread { ", fresh thread" } else { "" });
                    }
                    if oracle == Oracle::Serialisation {
                        let back = Sig::from_bytes(id.0, &bytes).map_err(|e| Fail::new("ser:sig-decode", format!("step {}: from_bytes(to_bytes(sig)) fails: {}", i, e)))?;
                        ensure!(back.same_as(&sig) && back.to_bytes() == bytes && bytes.len() == refimpl::params::params(id.0).sig_len, "ser:sig-roundtrip", "step {}: signature does not survive its bytes", i);
                    }
                    sigs.push(SigRec { key: *id, m: *m, sig, bytes });
                    st.count(if *thread { "machine_sign_in_thread" } else { "machine_sign" });
                    if msg.len() >= 5000 {
                        st.count("machine_sign_large_message");
                    }
                }
            }
            Op::Verify { sig, slot, m, thread } => {
                if sigs.is_empty() {
                    continue;
                }
                let rec = &sigs[*sig % sigs.len()];
                if let Some((id, sk)) = &slots[*slot % SLOTS] {
                    if id.0 != rec.key.0 {
                        continue; // other variant: the types do not even match
                    }
                    if oracle != Oracle::Verification {
                        continue;
                    }
                    let m = &m.unwrap_or(rec.m); // None: the message that was signed
                    let msg = message(h.base, *m);
                    // a public-key object made on the spot from the secret-key object in the slot
                    let pk: Pk = sk.public();
                    let got = if *thread {
                        std::thread::scope(|sc| sc.spawn(|| api::verify(&msg, &rec.sig, &pk)).join()).map_err(|_| Fail::new("verify:panic", "verify panicked in a fresh thread"))?
                    } else {
                        api::verify(&msg, &rec.sig, &pk)
                    };
                    let model = *id == rec.key && message(h.base, rec.m) == msg;
                    // the model's "false" is only probabilistic for honest keys; ask the specification
                    let want = refimpl::verify::spec_verify(&msg, &rec.bytes, &pk.to_bytes(), id.0);
                    ensure!(got == want, "verify:differs-from-spec-in-history", "step {}: verify returns {} but the specification says {} (signature for key {:?} message {}, checked against key {:?} message {})", i, got, want, rec.key, rec.m, id, m);
                    if model {
                        ensure!(got, "sign:does-not-verify", "step {}: an honest signature is rejected when verified later in the history (key object in slot {}{})", i, slot % SLOTS, if *thread { ", fresh thread" } else { "" });
                        st.count("machine_verify_expected_true");
                    } else {
                        st.count("machine_verify_expected_false");
                    }
                }
            }
        }
    }
    st.count("machine_histories");
    Ok(())
}
