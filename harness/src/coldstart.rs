//! Cold-start concurrency: in a FRESH process, several threads released by one barrier make the
//! process's first calls into one part of the library at the same moment, and each compares what
//! it gets with the reference model. Lazily initialised process-wide state (tables built on first
//! use, hand-rolled once-flags) is only ever raced at this moment, and an in-process pool reaches
//! it at most once per run, after other sub-checks have already warmed everything up.
//!
//! `fvh child coldstart <ID> <seed> <threads>` prints "ok" or "FAIL <what>"; the parent side is the
//! generic sub-check `ColdStart(<ID>)`.

use proptest::prelude::*;
use serde::{Deserialize, Serialize};
use serde_json::json;

use crate::engine::*;
use crate::util::mix;
use falcon_rust::verif_hooks as hooks;
use refimpl::{codec, hash, zq};

pub const NOTE: &str = "cold_start_concurrency: each case is a fresh process (fvh child coldstart) in which 2, 4, 8 or 16 threads released by one barrier make the process's first calls into this part of the library at the same moment; every thread compares its results with the reference model (round trips, products, encodings, hashes, sampler outputs, sign/verify). Non-trivial = every process.";

/// One thread's battery for property `id`; Err(description) on the first disagreement.
fn battery(id: &str, seed: u64) -> Result<(), String> {
    let mut s = mix(seed);
    let mut next = move || {
        s = mix(s);
        s
    };
    match id {
        "C11" | "C02" => {
            for &n in &[2usize, 4, 8, 16, 64, 512] {
                let a: Vec<i64> = (0..n).map(|_| (next() % 12289) as i64).collect();
                let b: Vec<i64> = (0..n).map(|_| (next() % 12289) as i64).collect();
                let (a16, b16): (Vec<i16>, Vec<i16>) = (a.iter().map(|&x| x as i16).collect(), b.iter().map(|&x| x as i16).collect());
                let (fa, fb) = (hooks::ntt(&a16), hooks::ntt(&b16));
                if hooks::intt(&fa) != a16 {
                    return Err(format!("n = {}: intt(ntt(a)) != a", n));
                }
                let prod = hooks::intt(&hooks::ntt_hadamard_mul(&fa, &fb));
                let want = zq::negacyclic_mul(&a, &b);
                if prod.iter().map(|&x| x as i64).collect::<Vec<_>>() != want {
                    return Err(format!("n = {}: intt(ntt(a) .* ntt(b)) != a b mod (X^n + 1, q)", n));
                }
            }
            Ok(())
        }
        "C12" => {
            for _ in 0..64 {
                let a = (next() % 12289) as i16;
                let b = (next() % 12289) as i16;
                if hooks::felt::mul(a, b) as i64 != (a as i64 * b as i64) % 12289 {
                    return Err(format!("{} * {} wrong", a, b));
                }
                let inv = hooks::felt::inv(a);
                if a != 0 && (inv as i64 * a as i64) % 12289 != 1 {
                    return Err(format!("inverse of {} is reported as {}", a, inv));
                }
            }
            let v: Vec<i16> = (0..24).map(|_| (next() % 12289) as i16).collect();
            let got = hooks::felt::batch_inv(&v);
            for (x, y) in v.iter().zip(got.iter()) {
                if (*x == 0 && *y != 0) || (*x != 0 && (*x as i64 * *y as i64) % 12289 != 1) {
                    return Err(format!("batch inverse of {} is reported as {}", x, y));
                }
            }
            Ok(())
        }
        "C13" => {
            for &n in &[2usize, 4, 8, 64, 512] {
                let a: Vec<(f64, f64)> = (0..n).map(|_| ((next() % 32769) as f64 - 16384.0, 0.0)).collect();
                let fa = hooks::cfft(&a);
                let back = hooks::cifft(&fa);
                let norm = a.iter().map(|x| x.0 * x.0).sum::<f64>().sqrt().max(1.0);
                let err = a.iter().zip(back.iter()).map(|(x, y)| (x.0 - y.0).abs().max(y.1.abs())).fold(0.0, f64::max);
                if !(err <= norm * 9.4e-10) {
                    return Err(format!("n = {}: ifft(fft(a)) is off by {:e}", n, err));
                }
                let (f0, f1) = hooks::csplit(&fa);
                let merged = hooks::cmerge(&f0, &f1);
                let err = fa.iter().zip(merged.iter()).map(|(x, y)| (x.0 - y.0).abs().max((x.1 - y.1).abs())).fold(0.0, f64::max);
                let fnorm = fa.iter().map(|x| x.0 * x.0 + x.1 * x.1).sum::<f64>().sqrt().max(1.0);
                if !(err <= fnorm * 9.4e-10) {
                    return Err(format!("n = {}: merge(split(F)) is off by {:e}", n, err));
                }
            }
            Ok(())
        }
        "C14" => {
            for _ in 0..4 {
                let len = (next() % 200) as usize;
                let m: Vec<u8> = (0..len).map(|_| next() as u8).collect();
                for &n in &[512usize, 1024] {
                    let got = hooks::hash_to_point(&m, n);
                    if got.iter().map(|&x| x as i64).collect::<Vec<_>>() != hash::hash_to_point(&m, n) {
                        return Err(format!("hash_to_point of a {}-byte string differs (n = {})", len, n));
                    }
                }
            }
            Ok(())
        }
        "C07" => {
            for _ in 0..8 {
                let n = 1 + (next() % 48) as usize;
                let v: Vec<i64> = (0..n).map(|_| (next() % 801) as i64 - 400).collect();
                let need = (codec::total_bits(&v) + 7) / 8;
                let v16: Vec<i16> = v.iter().map(|&x| x as i16).collect();
                let got = hooks::compress(&v16, need + 1);
                if got != codec::encode(&v, need + 1) {
                    return Err(format!("compress of {} coefficients differs from Algorithm 17", n));
                }
                if let Some(x) = got {
                    if hooks::decompress(&x, n) != Some(v16) {
                        return Err(format!("decompress(compress(v)) != v for {} coefficients", n));
                    }
                }
            }
            Ok(())
        }
        "C09" => {
            for _ in 0..16 {
                let mu = (next() % 4001) as f64 / 10.0 - 200.0;
                let sigma = 1.2778336969128337 + (next() % 5000) as f64 / 5000.0 * (1.8205 - 1.2778336969128337);
                let script: Vec<u8> = (0..400).map(|_| next() as u8).collect();
                let mut i = 0;
                let want = refimpl::sampler::sampler_z(mu, sigma, 1.2778336969128337, &mut || { let b = script.get(i).cloned(); i += 1; b }, 20);
                let mut rng = crate::util::ByteRng::new(script.clone(), Some(1));
                let got = hooks::samplerz::sampler_z(mu, sigma, 1.2778336969128337, &mut rng) as i64;
                if let Some(t) = want {
                    if !t.ambiguous && got != t.z {
                        return Err(format!("sampler_z(mu = {}, sigma = {}) returns {} but the model {}", mu, sigma, got, t.z));
                    }
                }
            }
            Ok(())
        }
        "C06" | "C05" | "C03" => {
            // well-formed public keys and signatures of both variants built by the reference
            // encoders: they must decode and re-encode to themselves
            for &n in &[512usize, 1024] {
                let p = refimpl::params::params(n);
                let h: Vec<i64> = (0..n).map(|_| (next() % 12289) as i64).collect();
                let pk = refimpl::keys::encode_pk(&h);
                match crate::api::Pk::from_bytes(n, &pk) {
                    Ok(k) if k.to_bytes() == pk => {}
                    Ok(_) => return Err(format!("Falcon-{} public key re-encodes differently", n)),
                    Err(e) => return Err(format!("Falcon-{} well-formed public key rejected: {}", n, e)),
                }
                let s2: Vec<i64> = (0..n).map(|_| (next() % 601) as i64 - 300).collect();
                let salt: Vec<u8> = (0..40).map(|_| next() as u8).collect();
                if let Some(body) = codec::encode(&s2, p.sig_len - 41) {
                    let sig = refimpl::keys::make_sig(n, &salt, &body);
                    match crate::api::Sig::from_bytes(n, &sig) {
                        Ok(k) if k.to_bytes() == sig => {}
                        Ok(_) => return Err(format!("Falcon-{} signature re-encodes differently", n)),
                        Err(e) => return Err(format!("Falcon-{} well-formed signature rejected: {}", n, e)),
                    }
                }
            }
            Ok(())
        }
        "C01" | "C15" | "C04" => {
            // generate, sign, verify: Falcon-512, and Falcon-1024 on one thread in four
            let n = if seed % 4 == 0 { 1024 } else { 512 };
            let key_seed = crate::util::seed32(next());
            let (sk, pk) = crate::api::keygen(n, key_seed);
            let (sk2, pk2) = crate::api::keygen(n, key_seed);
            if sk.to_bytes() != sk2.to_bytes() || pk.to_bytes() != pk2.to_bytes() {
                return Err(format!("Falcon-{}: two generations from one seed differ", n));
            }
            let msg: Vec<u8> = (0..(next() % 300) as usize).map(|_| next() as u8).collect();
            let sig = crate::api::sign(&msg, &sk);
            if !crate::api::verify(&msg, &sig, &pk) {
                return Err(format!("Falcon-{}: an honest signature is rejected", n));
            }
            if !refimpl::verify::spec_verify(&msg, &sig.to_bytes(), &pk.to_bytes(), n) {
                return Err(format!("Falcon-{}: an honest signature is rejected by the reference verifier", n));
            }
            Ok(())
        }
        _ => Err(format!("no cold-start battery for {}", id)),
    }
}

/// Child side.
pub fn child(id: &str, seed: u64, threads: usize) -> i32 {
    // key generation is a thousand times dearer than the other batteries: four threads at most
    let threads = if matches!(id, "C01" | "C15" | "C04") { threads.min(4) } else { threads };
    let barrier = std::sync::Barrier::new(threads.max(1));
    let results: Vec<Result<(), String>> = std::thread::scope(|sc| {
        let hs: Vec<_> = (0..threads.max(1))
            .map(|t| {
                let barrier = &barrier;
                sc.spawn(move || {
                    barrier.wait();
                    match no_panic(|| battery(id, seed ^ mix(t as u64 + 1))) {
                        Ok(r) => r,
                        Err(p) => Err(format!("panicked: {}", p)),
                    }
                })
            })
            .collect();
        hs.into_iter().map(|h| h.join().unwrap_or_else(|_| Err("thread died".into()))).collect()
    });
    match results.into_iter().enumerate().find_map(|(t, r)| r.err().map(|e| (t, e))) {
        None => {
            println!("ok");
            0
        }
        Some((t, e)) => {
            println!("FAIL thread {}: {}", t, e);
            0
        }
    }
}

#[derive(Clone, Debug, Serialize, Deserialize)]
pub struct ColdCase {
    seed: u64,
    threads: usize,
}

pub struct ColdStart(pub &'static str);

impl Sub for ColdStart {
    type Case = ColdCase;
    fn name(&self) -> &'static str {
        "cold_start_concurrency"
    }
    fn max_shrink_iters(&self) -> u32 {
        0
    }
    fn workers(&self, _env: &Env) -> usize {
        2 // each case is a process with its own threads
    }
    fn strategy(&self, _env: &Env) -> BoxedStrategy<ColdCase> {
        (any::<u64>(), prop_oneof![Just(2usize), Just(4), Just(8), Just(16)]).prop_map(|(seed, threads)| ColdCase { seed, threads }).boxed()
    }
    fn check(&self, c: &ColdCase, st: &mut Stats) -> Result<(), Fail> {
        let out = crate::child::run_child(&["coldstart".into(), self.0.into(), c.seed.to_string(), c.threads.clamp(1, 64).to_string()]).map_err(|e| Fail::new("harness:child", e))?;
        let line = out.first().cloned().unwrap_or_default();
        if line.starts_with("FAIL") {
            return Err(Fail::new("cold-start", format!("in a fresh process, {} threads making the process's first calls at the same moment: {}", c.threads, &line[5..])));
        }
        ensure!(line == "ok", "harness:child", "unexpected child output: {}", line);
        st.count(&format!("fresh_processes_with_{}_threads", c.threads));
        st.nontrivial(&(c.seed, c.threads));
        st.sample("cold_start", || json!({"seed": c.seed, "threads": c.threads}));
        Ok(())
    }
}
