//! C06 — decoding is strict: only the canonical encoding of an object is accepted.

use proptest::prelude::*;
use serde::{Deserialize, Serialize};
use serde_json::json;
use std::path::Path;

use crate::api::{Pk, Sig, Sk};
use crate::engine::*;
use crate::util::{hex, Hex};
use refimpl::keys::{self, KeyReject};
use refimpl::params::params;

#[derive(Clone, Debug, Serialize, Deserialize)]
pub struct DecodeCase {
    /// "pk" | "sk" | "sig"
    pub kind: String,
    /// decoder variant: 512 | 1024
    pub n: usize,
    pub bytes: Hex,
}

pub struct StrictDecode;

/// Encode a well-formed object of the given kind from generated fields.
pub fn wellformed(kind: &str, n: usize, seed: u64) -> Vec<u8> {
    let p = params(n);
    let mut s = seed;
    let mut next = || {
        s = crate::util::mix(s);
        s
    };
    match kind {
        "pk" => {
            let mut h: Vec<i64> = (0..n).map(|_| (next() % 12289) as i64).collect();
            // structure that length- or degree-based encoders get wrong: zero leading / trailing coefficients
            match seed % 8 {
                0 => {
                    let k = 1 + (seed / 8 % 3) as usize;
                    for x in h[n - k..].iter_mut() {
                        *x = 0;
                    }
                }
                1 => h[0] = 0,
                _ => {}
            }
            keys::encode_pk(&h)
        }
        "sk" => {
            let lim = (1i64 << (p.fg_bits - 1)) - 1;
            let f: Vec<i64> = (0..n).map(|_| (next() % (2 * lim as u64 + 1)) as i64 - lim).collect();
            let g: Vec<i64> = (0..n).map(|_| (next() % (2 * lim as u64 + 1)) as i64 - lim).collect();
            let mut cf: Vec<i64> = (0..n).map(|_| (next() % 255) as i64 - 127).collect();
            let (mut f, mut g) = (f, g);
            match seed % 8 {
                0 => f[n - 1] = 0,
                1 => g[n - 1] = 0,
                2 => cf[n - 1] = 0,
                3 => {
                    f[0] = 0;
                    g[0] = 0;
                    cf[0] = 0;
                }
                _ => {}
            }
            keys::encode_sk(&f, &g, &cf).unwrap()
        }
        _ => {
            let mut b = vec![keys::native_sig_header(n)];
            b.extend((0..p.sig_len - 1).map(|_| next() as u8));
            b
        }
    }
}

fn kind_len(kind: &str, n: usize) -> usize {
    let p = params(n);
    match kind {
        "pk" => p.pk_len,
        "sk" => p.sk_len,
        _ => p.sig_len,
    }
}

/// Overwrite a bit field (big-endian bit order) starting at absolute bit `pos`.
fn set_field(b: &mut [u8], pos: usize, width: usize, value: u32) {
    for j in 0..width {
        let bit = (value >> (width - 1 - j)) & 1;
        let i = pos + j;
        if i / 8 >= b.len() {
            return;
        }
        let mask = 0x80u8 >> (i % 8);
        if bit == 1 {
            b[i / 8] |= mask;
        } else {
            b[i / 8] &= !mask;
        }
    }
}

#[derive(Clone, Debug)]
enum Edit {
    None,
    Header(u8),
    /// use the other variant's length and/or header
    OtherVariantBytes,
    Field(u16, u8),
    Truncate(u16),
    Extend(u16),
    FlipBit(u16),
    LastByte(u8),
    /// lengthen (true) or shorten by a structural amount: a section of the format (n/8 .. 2n bytes,
    /// the f/g/F sections of a secret key, the salt, the whole body), filled with zeros, 0xFF, noise
    /// or a copy of the string's own bytes
    Resize(bool, u8, u8),
}

impl Sub for StrictDecode {
    type Case = DecodeCase;
    fn restrictable(&self) -> bool {
        true
    }
    fn name(&self) -> &'static str {
        "strict_decode"
    }
    fn strategy(&self, _env: &Env) -> BoxedStrategy<DecodeCase> {
        let kind = prop_oneof![3 => Just("pk"), 1 => Just("sk"), 3 => Just("sig")];
        let n = prop_oneof![Just(512usize), Just(1024usize)];
        let edit = prop_oneof![
            3 => Just(Edit::None),
            3 => any::<u8>().prop_map(Edit::Header),
            2 => Just(Edit::OtherVariantBytes),
            6 => (any::<u16>(), 0u8..8).prop_map(|(i, v)| Edit::Field(i, v)),
            1 => (1u16..4).prop_map(Edit::Truncate),
            1 => (1u16..4).prop_map(Edit::Extend),
            2 => any::<u16>().prop_map(Edit::FlipBit),
            1 => any::<u8>().prop_map(Edit::LastByte),
            3 => (any::<bool>(), any::<u8>(), any::<u8>()).prop_map(|(grow, which, fill)| Edit::Resize(grow, which, fill)),
        ];
        let structured = (kind, n, any::<u64>(), edit).prop_map(|(kind, n, seed, edit)| {
            let p = params(n);
            let mut b = wellformed(kind, n, seed);
            let mut dec_n = n;
            match edit {
                Edit::None => {}
                Edit::Header(h) => b[0] = h,
                Edit::OtherVariantBytes => dec_n = if n == 512 { 1024 } else { 512 },
                Edit::Field(i, v) => match kind {
                    "pk" => {
                        let k = pick_index(i, n);
                        let val = [12289u32, 12290, 16383, 12288, 0, 16384 - 1, 13000, 12289 * 1][v as usize % 8];
                        set_field(&mut b, 8 + 14 * k, 14, val);
                    }
                    "sk" => {
                        // the reserved pattern 10..0 or an extreme value in one field of f, g or F
                        let k = pick_index(i, 3 * n);
                        let (pos, w) = if k < 2 * n { (8 + p.fg_bits * k, p.fg_bits) } else { (8 + 2 * p.fg_bits * n + 8 * (k - 2 * n), 8) };
                        let val = match v % 4 {
                            0 | 1 => 1u32 << (w - 1),
                            2 => (1u32 << (w - 1)) - 1,
                            _ => (1u32 << (w - 1)) + 1,
                        };
                        set_field(&mut b, pos, w, val);
                    }
                    _ => {
                        let k = 1 + pick_index(i, b.len() - 1);
                        b[k] ^= 1 << (v % 8);
                    }
                },
                Edit::Truncate(k) => {
                    let l = b.len() - k as usize;
                    b.truncate(l);
                }
                Edit::Extend(k) => b.extend(std::iter::repeat(0u8).take(k as usize)),
                Edit::FlipBit(i) => {
                    let k = pick_index(i, 8 * b.len());
                    b[k / 8] ^= 0x80 >> (k % 8);
                }
                Edit::LastByte(v) => {
                    let l = b.len() - 1;
                    b[l] = v;
                }
                Edit::Resize(grow, which, fill) => {
                    let amounts = [n / 8, n / 4, n / 2, n, 2 * n, n * p.fg_bits / 8, 2 * n * p.fg_bits / 8, 14 * n / 8, 40, 41, b.len() - 1, b.len(), 8, 16, 5, 7];
                    let k = amounts[which as usize % amounts.len()].max(1);
                    if grow {
                        let mut s = seed ^ 0xE47;
                        let extra: Vec<u8> = (0..k)
                            .map(|j| match fill % 4 {
                                0 => 0u8,
                                1 => 0xFF,
                                2 => {
                                    s = crate::util::mix(s);
                                    s as u8
                                }
                                _ => b[1 + j % (b.len() - 1)],
                            })
                            .collect();
                        b.extend(extra);
                    } else {
                        let l = b.len().saturating_sub(k).max(1);
                        b.truncate(l);
                    }
                }
            }
            DecodeCase { kind: kind.to_string(), n: dec_n, bytes: Hex(b) }
        });
        let lengths = prop_oneof![
            Just(897usize), Just(1793), Just(1281), Just(2305), Just(666), Just(1280),
            Just(896), Just(898), Just(1792), Just(1794), Just(1280 + 1), Just(2304), Just(665), Just(667), Just(1279),
            0usize..64, 0usize..2400,
        ];
        let arbitrary = (prop_oneof![Just("pk"), Just("sk"), Just("sig")], prop_oneof![Just(512usize), Just(1024usize)], lengths, any::<u64>(), any::<u8>(), any::<bool>())
            .prop_map(|(kind, n, len, seed, h, valid_header)| {
                let mut s = seed;
                let mut b: Vec<u8> = (0..len)
                    .map(|_| {
                        s = crate::util::mix(s);
                        s as u8
                    })
                    .collect();
                if !b.is_empty() {
                    b[0] = if valid_header {
                        match kind {
                            "pk" => params(n).logn as u8,
                            "sk" => 0x50 | params(n).logn as u8,
                            _ => keys::native_sig_header(n),
                        }
                    } else {
                        h
                    };
                }
                DecodeCase { kind: kind.to_string(), n, bytes: Hex(b) }
            });
        prop_oneof![4 => structured, 1 => arbitrary].boxed()
    }

    fn check(&self, c: &DecodeCase, st: &mut Stats) -> Result<(), Fail> {
        let b = &c.bytes.0;
        // what the format rules of the property say about this string
        let rule: Option<KeyReject> = match c.kind.as_str() {
            "pk" => keys::decode_pk(b, c.n).err(),
            "sk" => keys::sk_format_reject(b, c.n),
            "sig" => keys::split_sig(b, c.n).err(),
            _ => return Err(Fail::new("harness:bad-replay", "unknown kind")),
        };
        let re: Result<Vec<u8>, String> = match c.kind.as_str() {
            "pk" => Pk::from_bytes(c.n, b).map(|x| x.to_bytes()),
            "sk" => Sk::from_bytes(c.n, b).map(|x| x.to_bytes()),
            _ => Sig::from_bytes(c.n, b).map(|x| x.to_bytes()),
        };
        let tag = format!("{}{}", c.kind, c.n);
        match &re {
            Ok(again) => {
                if let Some(r) = rule {
                    return Err(Fail::new(
                        format!("strict:{}:accepts:{:?}", c.kind, r),
                        format!("{} decoder ({}) accepts a {}-byte string that the format rules reject ({:?}); header 0x{:02x}", c.kind, c.n, b.len(), r, b.first().cloned().unwrap_or(0)),
                    ));
                }
                ensure!(again == b, &format!("strict:{}:reencode", c.kind), "{} decoder ({}) accepts a string whose re-encoding differs at byte {}", c.kind, c.n, again.iter().zip(b.iter()).position(|(x, y)| x != y).unwrap_or(again.len().min(b.len())));
                st.count(&format!("{}_accepted_roundtrip", tag));
                st.nontrivial(&(&c.kind, c.n, b));
            }
            Err(e) => {
                st.count(&format!("{}_rejected", tag));
                if matches!(rule, Some(KeyReject::FieldRange)) {
                    st.count(&format!("{}_rejected_by_field_rule", tag));
                    st.nontrivial(&(&c.kind, c.n, b));
                }
                if rule.is_none() {
                    // stricter than the format rules: allowed by the property, but worth counting
                    st.count(&format!("{}_rejected_beyond_format_rules({})", tag, e));
                }
            }
        }
        if b.len() == kind_len(&c.kind, c.n) {
            st.sample(&format!("{}_{}", c.kind, if re.is_ok() { "accepted" } else { "rejected" }), || json!({"kind": c.kind, "n": c.n, "len": b.len(), "head": hex(&b[..b.len().min(16)]), "rule": format!("{:?}", rule)}));
        }
        Ok(())
    }
}

const META: Meta = Meta {
    rule: "proptest byte strings for the six (type, variant) decoders: well-formed encodings built from generated fields (random h in [0,q)^n; random f,g,F inside the field ranges; random salt+body under a valid header), then one edit: any header byte, the other variant's decoder, one public-key coefficient set to q, q+1, 16383, ..., one secret-key field set to the reserved pattern 10..0 or an extreme value, truncation/extension by 1-3 bytes, one bit flip, last byte replaced; plus arbitrary bytes at the legal lengths +-1 and at random lengths with a valid or random header. Oracle: accepted => re-encoding is byte-identical, and rejected by the property's format rules (length, header, variant, coefficient >= q, reserved pattern) => from_bytes is Err. Non-trivial = accepted (exercises the round trip) or rejected by a field-level rule; distinct by hash of (decoder, bytes).",
    assumptions: &[
        "oracle for the rejection rules: refimpl::keys (specification section 3.11 formats); the converse direction (reference accepts => library accepts) is deliberately not asserted here (honest objects are covered by C05)",
    ],
};

pub fn run(env: &Env, replay: Option<&Path>) -> i32 {
    let mut report = Report::new();
    let cold = crate::coldstart::ColdStart("C06");
    let subs: [&dyn DynSub; 2] = [&StrictDecode, &cold];
    if let Some(p) = replay {
        if let Err(e) = replay_file(env, &subs, p, &mut report) {
            eprintln!("harness: {}", e);
            return 2;
        }
        return finish(env, report, &META);
    }
    replay_corpus(env, &subs, &mut report);
    drive(env, &StrictDecode, env.tier.pick(300_000, 6_000_000), &mut report);
    // fresh processes whose threads make their first calls at the same moment
    report.notes.push(crate::coldstart::NOTE.to_string());
    drive(env, &cold, env.tier.pick(240, 6000), &mut report);
    finish(env, report, &META)
}
