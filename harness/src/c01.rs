//! C01 — every honestly produced signature verifies (both variants), also under concurrency.

use proptest::prelude::*;
use serde::{Deserialize, Serialize};
use serde_json::json;
use std::path::Path;
use std::sync::{Arc, Barrier, OnceLock};

use crate::api::{self, seed_from, seed_hex};
use crate::engine::*;
use crate::gen;
use crate::util::{hex, mix, BiasedRng, Hex};

static KEY_SEEDS: OnceLock<Vec<(usize, [u8; 32])>> = OnceLock::new();

fn key_seeds(env: &Env) -> &'static Vec<(usize, [u8; 32])> {
    KEY_SEEDS.get_or_init(|| {
        let (a, b) = env.tier.pick((32, 16), (1500, 400));
        let v: Vec<(usize, [u8; 32])> = api::seed_list(env.seed, 0xC01, a).into_iter().map(|s| (512usize, s)).chain(api::seed_list(env.seed, 0xC01_1024, b).into_iter().map(|s| (1024usize, s))).collect();
        // plus the seeds of C04's corpus on which key generation is delicate (a candidate whose f
        // vanishes in one transform slot, runs of non-invertible candidates, F or G at the limit of
        // its field): if such a key comes out wrong, its honest signatures do not verify
        let mut v = v;
        let dir = env.verif_dir.join("corpus").join("C04");
        if let Ok(rd) = std::fs::read_dir(dir) {
            let mut files: Vec<_> = rd.filter_map(|e| e.ok()).map(|e| e.path()).collect();
            files.sort();
            for f in files {
                let name = f.file_name().map(|x| x.to_string_lossy().to_string()).unwrap_or_default();
                if !(name.starts_with("root_") || name.starts_with("noninv_stream_run") || name.starts_with("fglimit_max128") || name.starts_with("fglimit_min128")) {
                    continue;
                }
                let Ok(text) = std::fs::read_to_string(&f) else { continue };
                let Ok(j) = serde_json::from_str::<serde_json::Value>(&text) else { continue };
                let (Some(n), Some(seed)) = (j["case"]["n"].as_u64(), j["case"]["seed"].as_str().and_then(|h| seed_from(&Hex(crate::util::unhex(h).unwrap_or_default())))) else { continue };
                v.push((n as usize, seed));
            }
        }
        api::warm(&v, env.workers);
        v
    })
}

/// How the signer's randomness is supplied.
#[derive(Clone, Debug, Serialize, Deserialize, PartialEq, Eq, Hash)]
pub enum Mode {
    /// the real thread_rng path
    Natural,
    /// a seeded uniform stream through the SignRng hook (reproducible)
    Seeded { seed: u64 },
    /// a seeded stream whose first `biased_len` bytes are zero with probability p/65536: drives the
    /// norm-retry and compression-retry branches of sign
    Biased { seed: u64, p: u32, biased_len: u32 },
    /// a seeded uniform stream except that the first `forced` attempts are made to fail the norm
    /// test (util::RestartRng): the signature is what the signer emits after discarding attempts
    Restart { seed: u64, forced: u8 },
}

#[derive(Clone, Debug, Serialize, Deserialize)]
pub struct SignCase {
    n: usize,
    seed: Hex,
    msg: Hex,
    mode: Mode,
}

/// A fixed (key, message, signature) triple: the replay form of a failing natural-mode case.
#[derive(Clone, Debug, Serialize, Deserialize)]
pub struct TripleCase {
    n: usize,
    seed: Hex,
    msg: Hex,
    sig: Hex,
}

pub struct Triple;

impl Sub for Triple {
    type Case = TripleCase;
    fn name(&self) -> &'static str {
        "verify_triple"
    }
    fn strategy(&self, _env: &Env) -> BoxedStrategy<TripleCase> {
        // only used for replay
        Just(TripleCase { n: 512, seed: Hex(vec![0; 32]), msg: Hex(vec![]), sig: Hex(vec![]) }).boxed()
    }
    fn check(&self, c: &TripleCase, _st: &mut Stats) -> Result<(), Fail> {
        let seed = seed_from(&c.seed).ok_or_else(|| Fail::new("harness:bad-replay", "seed must be 32 bytes"))?;
        let key = api::key(c.n, seed);
        let sig = api::Sig::from_bytes(c.n, &c.sig.0).map_err(|e| Fail::new("sign:sig-bytes", format!("the signature bytes do not decode: {}", e)))?;
        ensure!(api::verify(&c.msg.0, &sig, &key.pk), "sign:does-not-verify", "the stored honest signature is rejected by verify");
        ensure!(refimpl::verify::spec_verify(&c.msg.0, &c.sig.0, &key.pk_bytes, c.n), "sign:spec-rejects", "the stored honest signature is rejected by the reference verifier");
        Ok(())
    }
}

thread_local! {
    /// One secret-key slot per thread, overwritten in place by whichever key a case uses: different
    /// keys then follow each other at the same address (anything keyed by object identity goes stale).
    static KEY_SLOT: std::cell::RefCell<Option<api::Sk>> = const { std::cell::RefCell::new(None) };
}

fn sign_and_check(n: usize, key: &api::Key, msg: &[u8], mode: &Mode, st: &mut Stats) -> Result<(), Fail> {
    let _ = falcon_rust::verif_hooks::take_sign_counters();
    // one case in four signs with a clone of the key placed in the thread's slot
    let via_slot = crate::util::fnv(msg) % 4 == 0;
    let do_sign = |sk: &api::Sk| match mode {
        Mode::Natural => api::sign(msg, sk), // thread_rng, under the byte budget (a sign that never returns is reported)
        Mode::Seeded { seed } => api::sign_with(msg, sk, Box::new(crate::util::chacha(*seed))),
        Mode::Biased { seed, p, biased_len } => api::sign_with(msg, sk, Box::new(BiasedRng::new(*seed, *p, *biased_len as usize))),
        Mode::Restart { seed, forced } => api::sign_with(msg, sk, Box::new(crate::util::RestartRng::new(*seed, n, *forced as usize))),
    };
    let sig = if via_slot {
        st.count("signatures_with_a_clone_in_a_reused_slot");
        KEY_SLOT.with(|slot| {
            let mut slot = slot.borrow_mut();
            *slot = Some(key.sk.clone());
            do_sign(slot.as_ref().unwrap())
        })
    } else {
        do_sign(&key.sk)
    };
    let (norm_retries, compress_retries) = falcon_rust::verif_hooks::take_sign_counters();
    let sb = sig.to_bytes();
    let triple = || json!({"n": n, "seed": hex(&key.seed), "msg": hex(msg), "sig": hex(&sb)});
    if !api::verify(msg, &sig, &key.pk) {
        return Err(Fail::new("sign:does-not-verify", format!("Falcon-{}: verify rejects an honest signature ({:?}, {} norm retries, {} compression retries)", n, mode, norm_retries, compress_retries)).with_minimal(triple()).into_sub("verify_triple"));
    }
    match refimpl::verify::spec_verify_traced(msg, &sb, &key.pk_bytes, n, false) {
        refimpl::verify::Outcome::Norm(x) if x <= refimpl::params::params(n).bound => {
            st.range(&format!("norm_over_bound_{}", n), x as f64 / refimpl::params::params(n).bound as f64);
        }
        other => {
            return Err(Fail::new("sign:spec-rejects", format!("Falcon-{}: the reference verifier rejects an honest signature: {:?}", n, other)).with_minimal(triple()).into_sub("verify_triple"));
        }
    }
    st.add("norm_retries", norm_retries);
    st.add("compression_retries", compress_retries);
    if norm_retries > 0 {
        st.count(&format!("signatures_after_norm_retry_{}", n));
    }
    if compress_retries > 0 {
        st.count(&format!("signatures_after_compression_retry_{}", n));
    }
    st.count(&format!("signatures_{}_{}", n, match mode {
        Mode::Natural => "natural",
        Mode::Seeded { .. } => "seeded",
        Mode::Biased { .. } => "biased",
        Mode::Restart { .. } => "after_forced_restarts",
    }));
    if msg.is_empty() {
        st.count("empty_message");
    }
    if msg.len() >= 1000 {
        st.count("message_ge_1000_bytes");
    }
    if norm_retries + compress_retries > 0 || msg.is_empty() || msg.len() >= 1000 {
        st.nontrivial(&(n, key.seed, msg, mode));
    }
    Ok(())
}

pub struct Honest;

fn mode_strategy(n: usize) -> BoxedStrategy<Mode> {
    let scale = if n == 1024 { 2 } else { 1 };
    prop_oneof![
        5 => Just(Mode::Natural),
        2 => any::<u64>().prop_map(|seed| Mode::Seeded { seed }),
        // zero-biased streams: the whole attempt mildly biased, or a short strongly biased prefix
        3 => (any::<u64>(), 2200u32..4200).prop_map(|(seed, p)| Mode::Biased { seed, p, biased_len: 400_000 }),
        2 => (any::<u64>(), 5000u32..12000, 4000u32..16000).prop_map(move |(seed, p, l)| Mode::Biased { seed, p, biased_len: l * scale }),
        1 => (any::<u64>(), 1u8..=3).prop_map(|(seed, forced)| Mode::Restart { seed, forced }),
    ]
    .boxed()
}

impl Sub for Honest {
    type Case = SignCase;
    fn restrictable(&self) -> bool {
        true
    }
    fn name(&self) -> &'static str {
        "honest_sign_verify"
    }
    fn max_shrink_iters(&self) -> u32 {
        64
    }
    fn strategy(&self, env: &Env) -> BoxedStrategy<SignCase> {
        let keys = key_seeds(env);
        (0..keys.len())
            .prop_flat_map(move |k| {
                let (n, s) = keys[k];
                let long = prop_oneof![20 => gen::message_strategy(), 1 => any::<u64>().prop_map(|s| {
                    let mut x = s;
                    (0..100 * 1024).map(|_| { x = mix(x); x as u8 }).collect::<Vec<u8>>()
                })];
                (Just(n), Just(s), long, mode_strategy(n))
            })
            .prop_map(|(n, s, msg, mode)| SignCase { n, seed: seed_hex(&s), msg: Hex(msg), mode })
            .boxed()
    }
    fn check(&self, c: &SignCase, st: &mut Stats) -> Result<(), Fail> {
        let seed = seed_from(&c.seed).ok_or_else(|| Fail::new("harness:bad-replay", "seed must be 32 bytes"))?;
        let key = api::key(c.n, seed);
        sign_and_check(c.n, &key, &c.msg.0, &c.mode, st)?;
        st.sample(&format!("sign_{}", c.n), || json!({"n": c.n, "key_seed": hex(&seed), "msg_len": c.msg.0.len(), "mode": c.mode}));
        Ok(())
    }
}

/// Many threads signing at once with one shared secret key.
#[derive(Clone, Debug, Serialize, Deserialize)]
pub struct ConcurrentCase {
    n: usize,
    seed: Hex,
    threads: usize,
    per_thread: usize,
    msg_seed: u64,
}

pub struct Concurrent;

impl Sub for Concurrent {
    type Case = ConcurrentCase;
    fn name(&self) -> &'static str {
        "shared_key_concurrency"
    }
    fn max_shrink_iters(&self) -> u32 {
        8
    }
    fn workers(&self, _env: &Env) -> usize {
        1 // each case starts its own threads
    }
    fn strategy(&self, env: &Env) -> BoxedStrategy<ConcurrentCase> {
        let keys = key_seeds(env);
        let per = env.tier.pick(100usize, 400usize);
        (0..keys.len(), prop_oneof![1 => 2usize..8, 3 => 8usize..=32], any::<u64>())
            .prop_map(move |(k, threads, msg_seed)| ConcurrentCase { n: keys[k].0, seed: seed_hex(&keys[k].1), threads, per_thread: per, msg_seed })
            .boxed()
    }
    fn check(&self, c: &ConcurrentCase, st: &mut Stats) -> Result<(), Fail> {
        let seed = seed_from(&c.seed).ok_or_else(|| Fail::new("harness:bad-replay", "seed must be 32 bytes"))?;
        let cached: Arc<api::Key> = api::key(c.n, seed);
        // Each round uses a FRESH secret-key object (decoded from the key's bytes, or generated
        // again) that has never signed: lazily initialised state inside the key, if any, is then
        // initialised under contention. Odd rounds warm the object up with one signature first.
        let rounds = 8usize;
        let per_round = (c.per_thread / rounds).max(1);
        let mut results: Vec<(Stats, Result<(), Fail>)> = vec![];
        for round in 0..rounds {
            let fresh_sk = if round % 4 == 2 { api::keygen(c.n, seed).0 } else { api::Sk::from_bytes(c.n, &cached.sk_bytes).map_err(|e| Fail::new("sign:key-bytes", format!("the key's own bytes do not decode: {}", e)))? };
            let fresh_pk = api::Pk::from_bytes(c.n, &cached.pk_bytes).map_err(|e| Fail::new("sign:key-bytes", format!("the public key's own bytes do not decode: {}", e)))?;
            let key = Arc::new(api::Key { n: c.n, seed, sk: fresh_sk, pk: fresh_pk, sk_bytes: cached.sk_bytes.clone(), pk_bytes: cached.pk_bytes.clone() });
            if round % 2 == 1 {
                let mut warm = Stats::default();
                sign_and_check(c.n, &key, b"warm-up", &Mode::Natural, &mut warm)?;
            }
            let barrier = Arc::new(Barrier::new(c.threads));
            let part: Vec<(Stats, Result<(), Fail>)> = std::thread::scope(|sc| {
                let hs: Vec<_> = (0..c.threads)
                    .map(|t| {
                        let key = key.clone();
                        let barrier = barrier.clone();
                        sc.spawn(move || {
                            let mut st = Stats::default();
                            barrier.wait();
                            for i in 0..per_round {
                                let i = round * per_round + i;
                                let s = mix(c.msg_seed ^ ((t as u64) << 32 | i as u64));
                                // thread 0 and 1 sign the same messages as each other
                                let ms = if t == 1 { mix(c.msg_seed ^ i as u64) } else { s };
                                let msg: Vec<u8> = (0..(ms % 48) as usize).map(|j| mix(ms + j as u64) as u8).collect();
                                let mode = match i % 4 {
                                    0 => Mode::Biased { seed: s, p: 3000, biased_len: 400_000 },
                                    _ => Mode::Natural,
                                };
                                if let Err(f) = no_panic(|| sign_and_check(c.n, &key, &msg, &mode, &mut st)).unwrap_or_else(|p| Err(Fail::new("sign:panic", p))) {
                                    return (st, Err(f));
                                }
                            }
                            (st, Ok(()))
                        })
                    })
                    .collect();
                hs.into_iter().map(|h| h.join().unwrap_or_else(|_| (Stats::default(), Err(Fail::new("sign:panic", "a signing thread panicked"))))).collect()
            });
            results.extend(part);
            st.count("concurrency_rounds_on_a_fresh_key_object");
        }
        for (s, r) in results {
            let total: u64 = s.counters.iter().filter(|(k, _)| k.starts_with("signatures_") && !k.contains("after")).map(|(_, v)| *v).sum();
            st.add("signatures_under_concurrency", total);
            st.merge(s);
            r?;
        }
        if c.threads >= 8 {
            st.count("scenarios_with_8_or_more_threads");
            st.nontrivial(&(c.n, seed, c.threads, c.msg_seed));
        }
        st.count("concurrency_scenarios");
        st.sample("concurrency", || json!({"n": c.n, "key_seed": hex(&seed), "threads": c.threads, "signatures_per_thread": c.per_thread}));
        Ok(())
    }
}

const MACHINE_ORACLE: crate::machine::Oracle = crate::machine::Oracle::Verification;
const MACHINE_OPS: usize = 40;

/// The API history machine (harness/src/machine.rs) with this property's invariant.
pub struct ApiHistory;

impl Sub for ApiHistory {
    type Case = crate::machine::History;
    fn name(&self) -> &'static str {
        "api_history"
    }
    fn max_shrink_iters(&self) -> u32 {
        200
    }
    fn strategy(&self, _env: &Env) -> BoxedStrategy<crate::machine::History> {
        crate::machine::strategy(MACHINE_OPS)
    }
    fn check(&self, c: &crate::machine::History, st: &mut Stats) -> Result<(), Fail> {
        crate::machine::run(c, MACHINE_ORACLE, st)?;
        st.nontrivial(&format!("{:?}", c.ops));
        st.sample("api_history", || serde_json::json!({"variants": c.variants, "ops": c.ops.iter().take(12).collect::<Vec<_>>()}));
        Ok(())
    }
}

const META: Meta = Meta {
    rule: "proptest (key, message, signer randomness): keys from a per-run list of seeds (32 x Falcon-512 + 16 x Falcon-1024 at quick); messages of length 0, 1-2, 3-64, 94-98, 230-234 (40+len straddles the SHAKE-256 rate), ~1 KiB and 100 KiB, random / all-zero / all-0xFF; signer randomness natural (thread_rng), seeded uniform, or zero-biased through the SignRng hook (each byte of a prefix is 0x00 with probability p/65536: a zero top byte forces BaseSampler to z0 >= 5, inflating the vector's norm so that it straddles floor(beta^2) and drives the norm-retry loop and, for Falcon-1024, the compression-retry loop; the stream turns uniform after the prefix so that signing terminates). One signature in four is made with a clone of the key written into a per-thread slot, so that different keys follow each other at one address. Oracle: verify accepts, and the reference verifier accepts the serialised triple. Concurrency scenarios: 2-32 threads released by a barrier share one secret key, each signing its own message list (threads 0 and 1 the same list), natural and biased mixed; every scenario runs 8 rounds, each on a fresh secret-key object (decoded from bytes or generated again) that has never signed, half of them warmed up by one signature first. Non-trivial = a signature that took a norm or compression retry, an empty or >= 1000-byte message, or a scenario with >= 8 threads; distinct by hash.",
    assumptions: &[
        "api_history sub-check: generated histories of 6-60 operations over four in-place key slots (load a fresh object, regenerate, clone, encode/decode, drop, sign and verify on this or a fresh thread; messages include the empty one and two large ones of equal length), interpreted against the obvious model with this property's invariant",
        "thread interleavings are stressed, not enumerated: the signer has no shared mutable state (no unsafe, no statics, thread-local generator, the secret key is only read)",
        "the SignRng hook only replaces the byte source; the body of sign runs unchanged on top of it",
        "for Falcon-512 the compression-retry branch is not reachable through signer randomness within the norm bound (measured: 0 in thousands of boundary-straddling attempts); it is reached for Falcon-1024",
    ],
};

pub fn run(env: &Env, replay: Option<&Path>) -> i32 {
    let mut report = Report::new();
    let cold = crate::coldstart::ColdStart("C01");
    let subs: [&dyn DynSub; 5] = [&Honest, &Concurrent, &Triple, &ApiHistory, &cold];
    if let Some(p) = replay {
        if let Err(e) = replay_file(env, &subs, p, &mut report) {
            eprintln!("harness: {}", e);
            return 2;
        }
        return finish(env, report, &META);
    }
    replay_corpus(env, &subs, &mut report);
    let keys = key_seeds(env);
    report.extra.insert("keys".into(), json!({"falcon512": keys.iter().filter(|k| k.0 == 512).count(), "falcon1024": keys.iter().filter(|k| k.0 == 1024).count()}));
    drive(env, &Honest, env.tier.pick(12_000, 900_000), &mut report);
    drive(env, &Concurrent, env.tier.pick(3, 24), &mut report);
    drive(env, &ApiHistory, env.tier.pick(1_500, 60_000), &mut report);
    // fresh processes whose threads make their first calls at the same moment
    report.notes.push(crate::coldstart::NOTE.to_string());
    drive(env, &cold, env.tier.pick(10, 200), &mut report);
    finish(env, report, &META)
}
