//! C02 — verify accepts exactly the signatures the specification accepts.
//! Differential: verify == SpecVerify (refimpl, Algorithm 16) on honest, mutated, forged-key,
//! malformed and degenerate triples; PQClean's verifier guards the model on convertible cases.

use proptest::prelude::*;
use serde_json::json;
use std::path::Path;
use std::sync::OnceLock;

use crate::api::{self, Pk, Sig};
use crate::c03::{wrap_body, VerifyCase};
use crate::engine::*;
use crate::gen;
use crate::util::{hex, mix, Hex};
use refimpl::params::params;
use refimpl::verify::Outcome;
use refimpl::{codec, hash, keys, zq};

pub struct Material {
    /// (n, sk, pk bytes): native keys and PQClean keys imported through from_bytes
    pub keys: Vec<(usize, api::Sk, Vec<u8>)>,
    pub native: usize,
    pub imported: usize,
    pub import_failed: usize,
}

static MATERIAL: OnceLock<Material> = OnceLock::new();

pub fn material(env: &Env) -> &'static Material {
    MATERIAL.get_or_init(|| {
        let (a, b) = env.tier.pick((8, 4), (24, 8));
        let pool = api::make_pool(env.seed ^ 0xC02, a, b);
        let mut keys: Vec<(usize, api::Sk, Vec<u8>)> = pool.keys.into_iter().map(|(n, _, sk, pk)| (n, sk, pk.to_bytes())).collect();
        let native = keys.len();
        let (mut imported, mut import_failed) = (0, 0);
        let (pa, pb) = env.tier.pick((16, 8), (200, 60));
        for (n, count) in [(512usize, pa), (1024usize, pb)] {
            for _ in 0..count {
                let (pk, sk) = crate::pq::keypair(n);
                match no_panic(|| api::Sk::from_bytes(n, &sk)) {
                    Ok(Ok(s)) => {
                        keys.push((n, s, pk));
                        imported += 1;
                    }
                    _ => import_failed += 1, // C16's business
                }
            }
        }
        Material { keys, native, imported, import_failed }
    })
}

// ------------------------------------------------------------------ forged-key construction

fn gaussian(s: &mut u64, sigma: f64) -> f64 {
    *s = mix(*s);
    let u1 = ((*s >> 11) as f64 + 1.0) / 9007199254740993.0;
    *s = mix(*s);
    let u2 = (*s >> 11) as f64 / 9007199254740992.0;
    sigma * (-2.0 * u1.ln()).sqrt() * (2.0 * std::f64::consts::PI * u2).cos()
}

fn four_squares(r: i64) -> [i64; 4] {
    let isq = |x: i64| (x as f64).sqrt() as i64;
    let mut a = isq(r);
    while a * a > r {
        a -= 1;
    }
    while a >= 0 {
        let r1 = r - a * a;
        let mut b = isq(r1).min(a);
        while b >= 0 {
            let r2 = r1 - b * b;
            let mut c = isq(r2).min(b);
            while c >= 0 {
                let r3 = r2 - c * c;
                let mut d = isq(r3);
                while d * d > r3 {
                    d -= 1;
                }
                while (d + 1) * (d + 1) <= r3 {
                    d += 1;
                }
                if d * d == r3 {
                    return [a, b, c, d];
                }
                c -= 1;
            }
            b -= 1;
        }
        a -= 1;
    }
    unreachable!("every non-negative integer is a sum of four squares")
}

#[derive(Clone, Debug)]
pub struct ForgeSpec {
    pub n: usize,
    pub msg: Vec<u8>,
    pub seed: u64,
    pub s2_sigma: f64,
    /// target: ||(s1, s2)||^2 = floor(beta^2) + delta
    pub delta: i64,
    /// put one s1 coefficient at the end of the centred range: 0 none, 1 -> +6144, 2 -> -6144
    pub edge: u8,
    /// put one s2 coefficient at this value (0 = none)
    pub s2_spike: i64,
    /// encode the last coefficient non-canonically: 512 extra zeros in its unary run (a decoder
    /// that accumulates the run in 16 bits wraps it back to the same value); only when it fits
    pub wrap_last: bool,
    /// make the last coefficient zero and encode it as "negative zero" (1 0000000 1)
    pub neg_zero_last: bool,
    /// extreme structured s1 instead of a prescribed norm: (stride, phase, magnitude) puts
    /// +-magnitude on every position i with i % stride == phase (far above the bound for large
    /// magnitudes: narrow accumulators and early exits must still say "reject")
    #[allow(dead_code)]
    pub s1_pattern: Option<(usize, usize, i64)>,
    /// enlarge s2 (in steps of 128 on random coefficients) until its encoding ends this many bits
    /// before the end of the signature: 0 = the last coefficient's terminator is the last bit of
    /// the buffer; the flag asks for a last coefficient of magnitude >= 128
    pub fill_to_end: Option<(u8, bool)>,
}

/// Build (signature bytes, public-key bytes) with a prescribed squared norm: pick s2, pick s1 with
/// ||s1||^2 = B + delta - ||s2||^2, set h = (c - s1) / s2 mod (q, X^n + 1).
pub fn forge(f: &ForgeSpec) -> Option<(Vec<u8>, Vec<u8>)> {
    let p = params(f.n);
    let n = f.n;
    let blen = p.sig_len - 41;
    let mut s = mix(f.seed);
    let salt: Vec<u8> = (0..40)
        .map(|_| {
            s = mix(s);
            s as u8
        })
        .collect();
    let mut r_cat_m = salt.clone();
    r_cat_m.extend_from_slice(&f.msg);
    let c = hash::hash_to_point(&r_cat_m, n);
    // s2: Gaussian, must fit the byte budget and be invertible
    let mut s2 = vec![];
    let mut ok = false;
    for _ in 0..20 {
        s2 = (0..n).map(|_| gaussian(&mut s, f.s2_sigma).round() as i64).collect::<Vec<i64>>();
        if f.s2_spike != 0 {
            s = mix(s);
            let i = (s % n as u64) as usize;
            s2[i] = f.s2_spike;
        }
        if f.neg_zero_last {
            s2[n - 1] = 0;
        }
        if let Some((slack, last_big)) = f.fill_to_end {
            let target = (8 * blen).saturating_sub(slack as usize);
            let mut first = last_big;
            while codec::total_bits(&s2) < target {
                s = mix(s);
                let i = if first { n - 1 } else { (s % n as u64) as usize };
                first = false;
                if s2[i].abs() + 128 > 2047 {
                    continue;
                }
                s2[i] += if s2[i] < 0 || (s2[i] == 0 && s & (1 << 40) != 0) { -128 } else { 128 };
            }
        }
        if codec::total_bits(&s2) <= 8 * blen && zq::evaluate_at_roots(&s2).iter().all(|&x| x != 0) {
            ok = true;
            break;
        }
    }
    if !ok {
        return None;
    }
    if let Some((stride, phase, mag)) = f.s1_pattern {
        let stride = stride.max(1);
        let mag = mag.clamp(0, 6144);
        let s1: Vec<i64> = (0..n)
            .map(|i| {
                s = mix(s);
                if i % stride == phase % stride {
                    if s & 1 == 1 { mag } else { -mag }
                } else {
                    (s >> 8) as i64 % 3 - 1
                }
            })
            .collect();
        let num: Vec<i64> = c.iter().zip(s1.iter()).map(|(c, s1)| c - s1).collect();
        let h = zq::ring_div(&num, &s2)?;
        let body = codec::encode(&s2, blen)?;
        return Some((keys::make_sig(n, &salt, &body), keys::encode_pk(&h)));
    }
    let n2: i64 = s2.iter().map(|x| x * x).sum();
    let mut budget = p.bound + f.delta - n2;
    let mut s1 = vec![0i64; n];
    let mut start = 0;
    if f.edge != 0 {
        s1[0] = if f.edge == 1 { 6144 } else { -6144 };
        budget -= 6144 * 6144;
        start = 1;
    }
    if budget < 0 {
        // the prescribed norm cannot be met (e.g. an edge coefficient under the Falcon-512 bound):
        // still a valid triple, far above the bound
        budget = 0;
    }
    let fill = n - 4 - start;
    let mut scale = (budget as f64 / fill as f64).sqrt() * 0.97;
    loop {
        let mut t = s;
        let mut sum = 0i64;
        for i in start..n - 4 {
            let x = (gaussian(&mut t, scale).round() as i64).clamp(-6144, 6144);
            s1[i] = x;
            sum += x * x;
        }
        if sum <= budget {
            s = t;
            budget -= sum;
            break;
        }
        scale *= 0.95;
        if scale < 0.01 {
            for x in s1[start..n - 4].iter_mut() {
                *x = 0;
            }
            break;
        }
    }
    // absorb most of the remainder by enlarging coordinates, then fix the rest with four squares
    let mut i = start;
    let mut rounds = 0;
    while budget > 20000 && rounds < 64 * n {
        let x = s1[i].abs();
        if x < 6144 {
            let k = ((((x * x + budget) as f64).sqrt()) as i64 - x).min(6144 - x).max(0);
            let mut k = k;
            while k > 0 && 2 * x * k + k * k > budget {
                k -= 1;
            }
            if k > 0 {
                budget -= 2 * x * k + k * k;
                s1[i] = if s1[i] < 0 { -(x + k) } else { x + k };
            }
        }
        i += 1;
        if i >= n - 4 {
            i = start;
        }
        rounds += 1;
    }
    let sq = four_squares(budget);
    for (k, v) in sq.iter().enumerate() {
        s = mix(s);
        s1[n - 4 + k] = if s & 1 == 1 { -*v } else { *v };
    }
    if s1.iter().any(|x| x.abs() > 6144) {
        return None;
    }
    let num: Vec<i64> = c.iter().zip(s1.iter()).map(|(c, s1)| c - s1).collect();
    let h = zq::ring_div(&num, &s2)?;
    let mut body = codec::encode(&s2, blen)?;
    if f.neg_zero_last || (f.wrap_last && codec::total_bits(&s2) + 512 <= 8 * blen) {
        let mut bits: Vec<bool> = vec![];
        for (i, &v) in s2.iter().enumerate() {
            let m = v.unsigned_abs();
            let extra = if i == n - 1 && f.wrap_last && !f.neg_zero_last { 512 } else { 0 };
            let neg = v < 0 || (i == n - 1 && f.neg_zero_last);
            gen::Coef { neg, low: (m & 127) as u8, high: (m >> 7) as u16 + extra }.push(&mut bits);
        }
        bits.resize(8 * blen, false);
        body = codec::pack(&bits);
    }
    Some((keys::make_sig(n, &salt, &body), keys::encode_pk(&h)))
}

// ------------------------------------------------------------------ the differential check

pub struct VerifyDiff;

#[derive(Clone, Debug)]
enum Mutation {
    None,
    MsgBit(u16),
    MsgAppend(u8),
    SaltBit(u16),
    S2Coef(u16, i16),
    PkCoef(u16, i16),
    OtherKey(u16),
    BodyBit(u16),
}

fn honest(env: &Env) -> BoxedStrategy<(usize, Vec<u8>, Vec<u8>, Vec<u8>, usize)> {
    let m = material(env);
    let nk = m.keys.len();
    (0..nk, gen::message_strategy(), any::<u64>())
        .prop_map(move |(k, msg, seed)| {
            let (n, sk, pk) = &m.keys[k];
            let sig = api::sign_with(&msg, sk, Box::new(crate::util::chacha(seed))).to_bytes();
            (*n, msg, sig, pk.clone(), k)
        })
        .boxed()
}

impl Sub for VerifyDiff {
    type Case = VerifyCase;
    fn restrictable(&self) -> bool {
        true
    }
    fn name(&self) -> &'static str {
        "verify_vs_spec"
    }
    fn strategy(&self, env: &Env) -> BoxedStrategy<VerifyCase> {
        let m = material(env);
        // 1. honest triples
        let c1 = honest(env).prop_map(|(n, msg, sig, pk, _)| VerifyCase { n, msg: Hex(msg), sig: Hex(sig), pk: Hex(pk) });
        // 2. one-step mutations of honest triples
        let mutation = prop_oneof![
            1 => Just(Mutation::None),
            2 => any::<u16>().prop_map(Mutation::MsgBit),
            1 => any::<u8>().prop_map(Mutation::MsgAppend),
            2 => any::<u16>().prop_map(Mutation::SaltBit),
            4 => (any::<u16>(), prop_oneof![Just(1i16), Just(-1), Just(128), Just(-128), Just(2), Just(-7)]).prop_map(|(i, d)| Mutation::S2Coef(i, d)),
            2 => (any::<u16>(), prop_oneof![Just(1i16), Just(-1), Just(100)]).prop_map(|(i, d)| Mutation::PkCoef(i, d)),
            1 => any::<u16>().prop_map(Mutation::OtherKey),
            2 => any::<u16>().prop_map(Mutation::BodyBit),
        ];
        let c2 = (honest(env), mutation).prop_map(move |((n, mut msg, mut sig, mut pk, k), mu)| {
            match mu {
                Mutation::None => {}
                Mutation::MsgBit(i) => {
                    if msg.is_empty() {
                        msg.push(0);
                    } else {
                        let b = pick_index(i, 8 * msg.len());
                        msg[b / 8] ^= 1 << (b % 8);
                    }
                }
                Mutation::MsgAppend(b) => msg.push(b),
                Mutation::SaltBit(i) => {
                    let b = pick_index(i, 320);
                    sig[1 + b / 8] ^= 1 << (b % 8);
                }
                Mutation::S2Coef(i, d) => {
                    if let Some(mut v) = codec::decode(&sig[41..], n) {
                        let j = pick_index(i, n);
                        v[j] += d as i64;
                        if let Some(body) = codec::encode(&v, sig.len() - 41) {
                            sig.truncate(41);
                            sig.extend(body);
                        }
                    }
                }
                Mutation::PkCoef(i, d) => {
                    if let Ok(mut h) = keys::decode_pk(&pk, n) {
                        let j = pick_index(i, n);
                        h[j] = zq::modq(h[j] + d as i64);
                        pk = keys::encode_pk(&h);
                    }
                }
                Mutation::OtherKey(i) => {
                    let same: Vec<usize> = (0..m.keys.len()).filter(|&j| j != k && m.keys[j].0 == n).collect();
                    if !same.is_empty() {
                        pk = m.keys[same[pick_index(i, same.len())]].2.clone();
                    }
                }
                Mutation::BodyBit(i) => {
                    let b = pick_index(i, 8 * (sig.len() - 41));
                    sig[41 + b / 8] ^= 0x80 >> (b % 8);
                }
            }
            VerifyCase { n, msg: Hex(msg), sig: Hex(sig), pk: Hex(pk) }
        });
        // 3. forged-key construction around the acceptance boundary
        let delta = prop_oneof![
            6 => Just(0i64), 3 => Just(1i64), 3 => Just(-1i64), 1 => Just(2i64), 1 => Just(-2i64),
            1 => -1000i64..1000, 1 => prop_oneof![Just(1_000_000i64), Just(-1_000_000i64), Just(-20_000_000i64)],
        ];
        let sigma = prop_oneof![1 => Just(1.0f64), 1 => Just(30.0f64), 3 => Just(165.0f64)];
        let edge = prop_oneof![5 => Just(0u8), 1 => Just(1u8), 1 => Just(2u8)];
        let spike = prop_oneof![8 => Just(0i64), 1 => prop_oneof![Just(2047i64), Just(-2047), Just(2048), Just(12159), Just(-12159), Just(6144), Just(-6145)]];
        let wrap = prop_oneof![18 => Just(0u8), 2 => Just(1u8), 1 => Just(2u8)];
        let c3 = (prop_oneof![Just(512usize), Just(1024usize)], gen::message_strategy(), any::<u64>(), sigma, delta, edge, spike, wrap).prop_filter_map("forged-key construction failed (s2 not invertible / does not fit)", |(n, msg, seed, s2_sigma, delta, edge, s2_spike, noncanon)| {
            // the non-canonical last coefficient needs 512 spare bits: Falcon-1024 with a short s2
            let wrap_last = noncanon == 1;
            let (n, s2_sigma) = if wrap_last { (1024, 1.0) } else { (n, s2_sigma) };
            let spec = ForgeSpec { n, msg: msg.clone(), seed, s2_sigma, delta, edge, s2_spike, wrap_last, neg_zero_last: noncanon == 2, s1_pattern: None, fill_to_end: None };
            forge(&spec).map(|(sig, pk)| VerifyCase { n, msg: Hex(msg), sig: Hex(sig), pk: Hex(pk) })
        });
        // 4. malformed / arbitrary bodies under an honest key
        let c4 = (honest(env), any::<u64>())
            .prop_flat_map(|((n, msg, _sig, pk, _), salt_seed)| {
                let blen = params(n).sig_len - 41;
                (Just(n), Just(msg), Just(pk), Just(salt_seed), gen::body_strategy(n, blen))
            })
            .prop_map(|(n, msg, pk, salt_seed, spec)| VerifyCase { n, msg: Hex(msg), sig: Hex(wrap_body(n, salt_seed, &spec.render())), pk: Hex(pk) });
        // 5. degenerate public keys with small s2
        let c5 = (prop_oneof![Just(512usize), Just(1024usize)], gen::message_strategy(), any::<u64>(), 0u8..4).prop_map(|(n, msg, seed, class)| {
            let p = params(n);
            let mut s = seed;
            let mut h = vec![0i64; n];
            match class {
                0 => {}
                1 => h[0] = 1,
                2 => h[0] = 12288,
                _ => {
                    for x in h.iter_mut() {
                        s = mix(s);
                        *x = (s % 12289) as i64;
                    }
                }
            }
            let s2: Vec<i64> = if class == 3 { vec![0; n] } else { (0..n).map(|_| gaussian(&mut s, 20.0).round() as i64).collect() };
            let body = codec::encode(&s2, p.sig_len - 41).unwrap_or_else(|| vec![0u8; p.sig_len - 41]);
            VerifyCase { n, msg: Hex(msg), sig: Hex(wrap_body(n, seed, &body)), pk: Hex(keys::encode_pk(&h)) }
        });
        // 6. extreme structured s1: +-6144 (or another large magnitude) on every position of one
        // residue class modulo a small stride, tiny elsewhere - squared norms up to 3.9e10
        let c6 = (prop_oneof![Just(512usize), Just(1024usize)], gen::message_strategy(), any::<u64>(), prop_oneof![Just(1usize), Just(2), Just(4), Just(8), Just(16), Just(3)], 0usize..16, prop_oneof![3 => Just(6144i64), 1 => Just(6143i64), 1 => Just(5793i64), 1 => 2000i64..6144])
            .prop_filter_map("forged-key construction failed", |(n, msg, seed, stride, phase, mag)| {
                let spec = ForgeSpec { n, msg: msg.clone(), seed, s2_sigma: 1.0, delta: 0, edge: 0, s2_spike: 0, wrap_last: false, neg_zero_last: false, s1_pattern: Some((stride, phase, mag)), fill_to_end: None };
                forge(&spec).map(|(sig, pk)| VerifyCase { n, msg: Hex(msg), sig: Hex(sig), pk: Hex(pk) })
            });
        // 7. valid signatures whose compressed s2 ends 0..9 bits before the end of the buffer (the
        // last coefficient's terminator on the very last bit, with and without a last coefficient
        // of magnitude >= 128), at and around the norm bound
        let c7 = (prop_oneof![Just(512usize), Just(1024usize)], gen::message_strategy(), any::<u64>(), prop_oneof![4 => Just(0u8), 1 => Just(1u8), 1 => Just(7u8), 1 => Just(8u8), 1 => Just(9u8)], any::<bool>(), prop_oneof![3 => Just(0i64), 1 => Just(1i64), 1 => Just(-5_000_000i64)])
            .prop_filter_map("forged-key construction failed", |(n, msg, seed, slack, last_big, delta)| {
                let spec = ForgeSpec { n, msg: msg.clone(), seed, s2_sigma: 30.0, delta, edge: 0, s2_spike: 0, wrap_last: false, neg_zero_last: false, s1_pattern: None, fill_to_end: Some((slack, last_big)) };
                forge(&spec).map(|(sig, pk)| VerifyCase { n, msg: Hex(msg), sig: Hex(sig), pk: Hex(pk) })
            });
        prop_oneof![3 => c1, 30 => c2, 8 => c3, 6 => c4, 1 => c5, 2 => c6, 2 => c7].boxed()
    }

    fn check(&self, c: &VerifyCase, st: &mut Stats) -> Result<(), Fail> {
        let (sig, pk) = match (Sig::from_bytes(c.n, &c.sig.0), Pk::from_bytes(c.n, &c.pk.0)) {
            (Ok(s), Ok(p)) => (s, p),
            _ => {
                st.count("outside_quantifier_not_decodable");
                return Ok(());
            }
        };
        let got = api::verify(&c.msg.0, &sig, &pk);
        ensure!(api::verify(&c.msg.0, &sig, &pk) == got, "verify:not-repeatable", "verifying the same triple twice in a row gives two different answers");
        let bound = params(c.n).bound;
        let outcome = refimpl::verify::spec_verify_traced(&c.msg.0, &c.sig.0, &c.pk.0, c.n, false);
        let want = match &outcome {
            Outcome::Norm(x) => *x <= bound,
            Outcome::BadEncoding(_) => false,
            Outcome::NotDecodable => {
                st.count("outside_quantifier_reference_cannot_parse");
                return Ok(());
            }
        };
        let v = if c.n == 512 { "512" } else { "1024" };
        let describe = match &outcome {
            Outcome::Norm(x) => format!("well-formed, squared norm {} = bound {:+}", x, x - bound),
            Outcome::BadEncoding(r) => format!("malformed compressed part ({:?})", r),
            Outcome::NotDecodable => unreachable!(),
        };
        if got != want {
            let key = match &outcome {
                Outcome::Norm(x) if *x == bound => "verify:norm-equals-bound".to_string(),
                Outcome::Norm(x) if (*x - bound).abs() <= 2 => "verify:norm-near-bound".to_string(),
                Outcome::Norm(_) => "verify:norm".to_string(),
                Outcome::BadEncoding(r) => format!("verify:accepts-malformed:{:?}", r),
                Outcome::NotDecodable => unreachable!(),
            };
            return Err(Fail::new(key, format!("Falcon-{}: verify returns {} but the specification {} ({})", v, got, if want { "accepts" } else { "rejects" }, describe)));
        }
        // second opinion on the model, where PQClean can express the case
        if let Outcome::Norm(_) = &outcome {
            let s2 = codec::decode(&c.sig.0[41..], c.n).unwrap();
            if s2.iter().all(|x| x.abs() <= 2047) {
                if let Some(pqsig) = keys::native_to_pqclean(&c.sig.0, c.n) {
                    if let Some(pqv) = crate::pq::verify(c.n, &pqsig, &c.msg.0, &c.pk.0) {
                        st.count("cross_checked_with_pqclean");
                        if pqv != want {
                            return Err(Fail::new("harness:oracle-disagreement", format!("reference model says {} but PQClean says {} ({})", want, pqv, describe)));
                        }
                    }
                }
            }
        }
        // classes
        st.count(&format!("expected_{}_{}", want, v));
        match &outcome {
            Outcome::Norm(x) => {
                let d = x - bound;
                if d == 0 {
                    st.count(&format!("boundary_exact_{}", v));
                } else if d.abs() == 1 {
                    st.count(&format!("boundary_pm1_{}", v));
                } else if d.abs() == 2 {
                    st.count(&format!("boundary_pm2_{}", v));
                }
                if !want || d.abs() <= 2 {
                    st.nontrivial(&(&c.msg.0, &c.sig.0, &c.pk.0));
                }
                if d.abs() <= 2 {
                    st.sample(&format!("boundary_{}", v), || json!({"n": c.n, "msg": hex(&c.msg.0[..c.msg.0.len().min(16)]), "norm_minus_bound": d, "verify": got, "sig_head": hex(&c.sig.0[..12]), "pk_head": hex(&c.pk.0[..8])}));
                }
            }
            Outcome::BadEncoding(r) => {
                st.count(&format!("malformed_{:?}", r));
                st.nontrivial(&(&c.msg.0, &c.sig.0, &c.pk.0));
            }
            _ => {}
        }
        st.sample(if want { "accepted" } else { "rejected" }, || json!({"n": c.n, "msg_len": c.msg.0.len(), "outcome": describe, "verify": got}));
        Ok(())
    }
}

/// Does some s1 coefficient of this triple sit at the end of the centred range?
pub struct Unused;

const META: Meta = Meta {
    rule: "proptest triples (msg, signature bytes, public-key bytes) that both decoders accept: (1) honest signatures under native keys and under PQClean keys imported through from_bytes, signer randomness from a seeded ChaCha through the SignRng hook; (2) one-step mutations of honest triples (message bit / appended byte, salt bit, one s2 coefficient +-1/+-128 re-encoded, one public-key coefficient, another key, one body bit); (3) forged-key construction: choose s2 (Gaussian sigma 1/30/165, optional coefficient at +-2047, 2048, +-12159, 6144, -6145) and s1 with ||(s1,s2)||^2 = floor(beta^2)+delta exactly, delta in {0,+-1,+-2, small, large}, optional s1 coefficient at +-6144, and set h = (c - s1)/s2; (4) grammar-built malformed bodies under an honest key; forged Falcon-1024 triples whose last coefficient carries 512 extra unary zeros (a 16-bit accumulator wraps it back to the same value, the specification rejects the run) or is a zero encoded as negative zero; (5) degenerate keys h = 0, 1, -1, random with s2 = 0; (6) forged triples with an extreme structured s1: +-6144 (or another large magnitude) on every position of one residue class modulo 1, 2, 3, 4, 8 or 16 and tiny values elsewhere (squared norms up to 3.9e10). Oracle: refimpl SpecVerify (Algorithm 16 on own SHAKE-256, own codec, own Z_q ring arithmetic); PQClean's verifier must agree with the model wherever the case is expressible in its format (counted). Non-trivial = the specification rejects, or |norm - bound| <= 2; distinct by hash of the triple.",
    assumptions: &[
        "oracle: refimpl::verify (Algorithm 16), cross-checked against PQClean on every convertible well-formed case of the run; a disagreement between the two oracles is a harness error (exit 2), not a violation",
        "triples that Signature::from_bytes / PublicKey::from_bytes reject are outside the property's quantifier and only counted",
    ],
};

pub fn run(env: &Env, replay: Option<&Path>) -> i32 {
    let mut report = Report::new();
    let cold = crate::coldstart::ColdStart("C02");
    let subs: [&dyn DynSub; 2] = [&VerifyDiff, &cold];
    if let Some(p) = replay {
        if let Err(e) = replay_file(env, &subs, p, &mut report) {
            eprintln!("harness: {}", e);
            return 2;
        }
        return finish(env, report, &META);
    }
    replay_corpus(env, &subs, &mut report);
    let m = material(env);
    report.extra.insert("keys".into(), json!({"native": m.native, "imported_from_pqclean": m.imported, "pqclean_import_failed": m.import_failed}));
    drive(env, &VerifyDiff, env.tier.pick(48_000, 960_000), &mut report);
    // fresh processes whose threads make their first calls at the same moment
    report.notes.push(crate::coldstart::NOTE.to_string());
    drive(env, &cold, env.tier.pick(240, 6000), &mut report);
    finish(env, report, &META)
}
