//! Helper re-executions of the harness: cross-process steps of the histories in C08 and C15.

use crate::api;
use crate::util::{hex, unhex};

pub fn main(args: &[String]) -> i32 {
    match args.first().map(|s| s.as_str()) {
        // child keygen <n> <seedhex>  ->  "<sk hex> <pk hex>"
        Some("keygen") if args.len() == 3 => {
            let n: usize = args[1].parse().unwrap_or(0);
            let seed = match unhex(&args[2]) {
                Ok(s) if s.len() == 32 && (n == 512 || n == 1024) => s,
                _ => return 2,
            };
            let mut s = [0u8; 32];
            s.copy_from_slice(&seed);
            let (sk, pk) = api::keygen(n, s);
            println!("{} {}", hex(&sk.to_bytes()), hex(&pk.to_bytes()));
            0
        }
        // child keygen-after <n> <seedhex> <other n>  ->  generate a key of the other variant first
        Some("keygen-after") if args.len() == 4 => {
            let n: usize = args[1].parse().unwrap_or(0);
            let other: usize = args[3].parse().unwrap_or(0);
            let seed = match unhex(&args[2]) {
                Ok(s) if s.len() == 32 && (n == 512 || n == 1024) && (other == 512 || other == 1024) => s,
                _ => return 2,
            };
            let _ = api::keygen(other, [0x5au8; 32]);
            let mut s = [0u8; 32];
            s.copy_from_slice(&seed);
            let (sk, pk) = api::keygen(n, s);
            println!("{} {}", hex(&sk.to_bytes()), hex(&pk.to_bytes()));
            0
        }
        // child coldstart <ID> <seed> <threads>  ->  "ok" | "FAIL ..."
        Some("coldstart") if args.len() == 4 => crate::coldstart::child(&args[1], args[2].parse().unwrap_or(0), args[3].parse().unwrap_or(2)),
        // child salts <n> <seedhex> <msghex> <count>  ->  one signature (hex) per line
        Some("salts") if args.len() == 5 => {
            let n: usize = args[1].parse().unwrap_or(0);
            let seed = match unhex(&args[2]) {
                Ok(s) if s.len() == 32 && (n == 512 || n == 1024) => s,
                _ => return 2,
            };
            let msg = match unhex(&args[3]) {
                Ok(m) => m,
                _ => return 2,
            };
            let count: usize = args[4].parse().unwrap_or(0);
            let mut s = [0u8; 32];
            s.copy_from_slice(&seed);
            let (sk, _pk) = api::keygen(n, s);
            for _ in 0..count {
                println!("{}", hex(&api::sign_unbounded(&msg, &sk).to_bytes()));
            }
            0
        }
        _ => 2,
    }
}

/// Run `fvh child ...` and return its stdout lines; Err on spawn failure / non-zero exit.
pub fn run_child(args: &[String]) -> Result<Vec<String>, String> {
    let exe = std::env::current_exe().map_err(|e| e.to_string())?;
    let out = std::process::Command::new(exe).arg("child").args(args).output().map_err(|e| e.to_string())?;
    if !out.status.success() {
        return Err(format!("child exited with {:?}: {}", out.status.code(), String::from_utf8_lossy(&out.stderr)));
    }
    Ok(String::from_utf8_lossy(&out.stdout).lines().map(|s| s.to_string()).collect())
}
