//! C16 — keys and signatures interoperate with the reference implementation (PQClean).

use proptest::prelude::*;
use serde::{Deserialize, Serialize};
use serde_json::json;
use std::path::Path;
use std::sync::OnceLock;

use crate::api::{self, seed_from, seed_hex, Pk, Sig, Sk};
use crate::engine::*;
use crate::gen;
use crate::pq;
use crate::util::{hex, mix, Hex};
use refimpl::keys;
use refimpl::params::params;

fn messages(seed: u64, count: usize) -> Vec<Vec<u8>> {
    (0..count)
        .map(|i| {
            let s = mix(seed ^ i as u64);
            let len = match i % 6 {
                0 => 0,
                1 => 1,
                2 => 96,
                3 => 1000,
                4 => (s % 120) as usize,
                _ => (s % 700) as usize,
            };
            (0..len).map(|j| mix(s + j as u64) as u8).collect()
        })
        .collect()
}

/// Messages m for which 0x42 x 40 || m is a far-tail string of the HashToPoint rejection sampler
/// (the committed corpus of C14, found with the reference model).
fn unlucky_messages(n: usize) -> &'static Vec<Vec<u8>> {
    static M: OnceLock<(Vec<Vec<u8>>, Vec<Vec<u8>>)> = OnceLock::new();
    let m = M.get_or_init(|| {
        let dir = std::path::PathBuf::from(std::env::var("VERIF_DIR").unwrap_or_else(|_| ".".into())).join("corpus").join("C14");
        let mut out = (vec![], vec![]);
        if let Ok(rd) = std::fs::read_dir(dir) {
            let mut files: Vec<_> = rd.filter_map(|e| e.ok()).map(|e| e.path()).collect();
            files.sort();
            for f in files {
                let name = f.file_name().map(|x| x.to_string_lossy().to_string()).unwrap_or_default();
                let Ok(text) = std::fs::read_to_string(&f) else { continue };
                let Ok(v) = serde_json::from_str::<serde_json::Value>(&text) else { continue };
                let Some(hexs) = v.get("case").and_then(|c| c.get("s")).and_then(|s| s.as_str()) else { continue };
                let Ok(bytes) = crate::util::unhex(hexs) else { continue };
                if bytes.len() > 40 && bytes[..40].iter().all(|&b| b == 0x42) {
                    if name.starts_with("unlucky_512") {
                        out.0.push(bytes[40..].to_vec());
                    } else if name.starts_with("unlucky_1024") {
                        out.1.push(bytes[40..].to_vec());
                    }
                }
            }
        }
        out
    });
    if n == 512 { &m.0 } else { &m.1 }
}

// ------------------------------------------------------------------ keys generated here

#[derive(Clone, Debug, Serialize, Deserialize)]
pub struct NativeCase {
    n: usize,
    seed: Hex,
    msg_seed: u64,
    count: usize,
}

pub struct NativeKey;

impl Sub for NativeKey {
    type Case = NativeCase;
    fn restrictable(&self) -> bool {
        true
    }
    fn name(&self) -> &'static str {
        "native_key_with_reference"
    }
    fn max_shrink_iters(&self) -> u32 {
        16
    }
    fn batch(&self) -> usize {
        1
    }
    fn strategy(&self, env: &Env) -> BoxedStrategy<NativeCase> {
        let count = env.tier.pick(40usize, 20usize);
        (prop_oneof![3 => Just(512usize), 1 => Just(1024usize)], gen::seed_strategy(), any::<u64>()).prop_map(move |(n, s, msg_seed)| NativeCase { n, seed: seed_hex(&s), msg_seed, count }).boxed()
    }
    fn check(&self, c: &NativeCase, st: &mut Stats) -> Result<(), Fail> {
        let seed = seed_from(&c.seed).ok_or_else(|| Fail::new("harness:bad-replay", "seed must be 32 bytes"))?;
        let n = c.n;
        let key = api::key(n, seed);
        let (_, _, cf, cg) = key.sk.fg();
        let max_cap = cf.iter().chain(cg.iter()).map(|x| x.abs()).max().unwrap_or(0);
        for (i, msg) in messages(c.msg_seed, c.count).iter().enumerate() {
            // 2. a signature made here, re-framed, is accepted by the reference verifier
            // (one in five is the signature the signer emits after discarding a forced first attempt)
            // (one in five hashes a far-tail HashToPoint string: salt 0x42 x 40 scripted through
            // the signer's byte stream, message taken from the corpus of C14)
            let unlucky = unlucky_messages(n);
            let (msg, far_tail): (&Vec<u8>, bool) = if i % 5 == 2 && !unlucky.is_empty() { (&unlucky[(mix(c.msg_seed ^ i as u64) % unlucky.len() as u64) as usize], true) } else { (msg, false) };
            let rng: Box<dyn rand::RngCore> = if far_tail {
                st.count("native_signatures_over_far_tail_hash_strings");
                Box::new(crate::util::ByteRng::new(vec![0x42u8; 40], Some(c.msg_seed ^ i as u64)))
            } else if i % 5 == 4 {
                st.count("native_signatures_after_a_forced_restart");
                Box::new(crate::util::RestartRng::new(c.msg_seed ^ i as u64, n, 1))
            } else if i % 5 == 3 {
                // a zero-biased stream: attempts straddle the norm bound and (Falcon-1024) the
                // compressed length, so that some of these signatures follow a compression retry
                st.count("native_signatures_from_a_zero_biased_stream");
                Box::new(crate::util::BiasedRng::new(c.msg_seed ^ i as u64, 2200 + (mix(c.msg_seed ^ i as u64) % 2000) as u32, 400_000))
            } else {
                Box::new(crate::util::chacha(c.msg_seed ^ i as u64))
            };
            let _ = falcon_rust::verif_hooks::take_sign_counters();
            let sig = api::sign_with(msg, &key.sk, rng).to_bytes();
            let (norm_retries, compress_retries) = falcon_rust::verif_hooks::take_sign_counters();
            if compress_retries > 0 {
                st.count(&format!("native_signatures_after_a_compression_retry_{}", n));
            }
            if norm_retries > 0 {
                st.count(&format!("native_signatures_after_a_norm_retry_{}", n));
            }
            let pqsig = keys::native_to_pqclean(&sig, n).ok_or_else(|| Fail::new("interop:reframe", "a native signature could not be re-framed"))?;
            let ok = pq::verify(n, &pqsig, msg, &key.pk_bytes).ok_or_else(|| Fail::new("interop:reference-rejects-lengths", format!("the reference wrappers refuse the byte lengths (pk {} bytes, signature {} bytes)", key.pk_bytes.len(), pqsig.len())))?;
            ensure!(ok, "interop:native-sig-rejected-by-reference", "Falcon-{}: the reference verifier rejects a signature made here (message of {} bytes, stripped signature of {} bytes)", n, msg.len(), pqsig.len());
            st.count(&format!("native_to_ref_{}", n));
            // 4. the exported secret key signs in the reference implementation; verified here
            if i % 4 == 0 {
                let rs = pq::sign(n, msg, &key.sk_bytes).ok_or_else(|| Fail::new("interop:reference-rejects-lengths", "the reference wrapper refuses the secret key length"))?;
                ensure!(rs.len() > 41, "interop:exported-key-refused", "Falcon-{}: the reference implementation cannot sign with the exported secret key (max |F|,|G| = {})", n, max_cap);
                let native = keys::pqclean_to_native(&rs, n);
                match native {
                    None => st.count("reference_signature_longer_than_fixed_length"),
                    Some(nb) => {
                        let s = Sig::from_bytes(n, &nb).map_err(|e| Fail::new("interop:padded-sig-rejected", format!("a padded reference signature does not decode: {}", e)))?;
                        ensure!(api::verify(msg, &s, &key.pk), "interop:exported-key-sig-rejected", "Falcon-{}: a signature made by the reference implementation with the exported key is rejected here (max |F|,|G| = {})", n, max_cap);
                        st.count(&format!("exported_key_{}", n));
                    }
                }
            }
        }
        st.nontrivial(&(n, seed));
        st.count(&format!("native_keys_{}", n));
        st.range(&format!("native_max_abs_F_G_{}", n), max_cap as f64);
        st.sample(&format!("native_key_{}", n), || json!({"n": n, "seed": hex(&seed), "signatures_each_way": c.count, "max_abs_FG": max_cap}));
        Ok(())
    }
}

// ------------------------------------------------------------------ keys generated by the reference

#[derive(Clone, Debug, Serialize, Deserialize)]
pub struct RefCase {
    n: usize,
    pk: Hex,
    sk: Hex,
    msg_seed: u64,
    count: usize,
}

pub struct RefKey;

static REF_KEYS: OnceLock<Vec<(usize, Vec<u8>, Vec<u8>)>> = OnceLock::new();

fn ref_keys(env: &Env) -> &'static Vec<(usize, Vec<u8>, Vec<u8>)> {
    REF_KEYS.get_or_init(|| {
        let (a, b) = env.tier.pick((100, 50), (12_000, 4_000));
        let mut v = vec![];
        for (n, count) in [(512usize, a), (1024usize, b)] {
            let made: Vec<(usize, Vec<u8>, Vec<u8>)> = std::thread::scope(|sc| {
                let hs: Vec<_> = (0..16).map(|t| sc.spawn(move || (0..count).filter(|i| i % 16 == t).map(|_| pq::keypair(n)).map(|(pk, sk)| (n, pk, sk)).collect::<Vec<_>>())).collect();
                hs.into_iter().flat_map(|h| h.join().unwrap()).collect()
            });
            v.extend(made);
        }
        v
    })
}

impl Sub for RefKey {
    type Case = RefCase;
    fn name(&self) -> &'static str {
        "reference_key_here"
    }
    fn max_shrink_iters(&self) -> u32 {
        16
    }
    fn strategy(&self, env: &Env) -> BoxedStrategy<RefCase> {
        let keys = ref_keys(env);
        let count = env.tier.pick(24usize, 8usize);
        (0..keys.len(), any::<u64>()).prop_map(move |(k, msg_seed)| RefCase { n: keys[k].0, pk: Hex(keys[k].1.clone()), sk: Hex(keys[k].2.clone()), msg_seed, count }).boxed()
    }
    fn check(&self, c: &RefCase, st: &mut Stats) -> Result<(), Fail> {
        let n = c.n;
        let p = params(n);
        // 1. the reference's encodings decode here and re-encode identically
        ensure!(c.pk.0.len() == p.pk_len && c.sk.0.len() == p.sk_len, "interop:sizes", "reference key sizes {} / {} differ from {} / {}", c.pk.0.len(), c.sk.0.len(), p.pk_len, p.sk_len);
        let pk = Pk::from_bytes(n, &c.pk.0).map_err(|e| Fail::new("interop:ref-pk-rejected", format!("Falcon-{}: a reference public key does not decode here: {}", n, e)))?;
        ensure!(pk.to_bytes() == c.pk.0, "interop:ref-pk-reencode", "a reference public key re-encodes differently");
        let sk = Sk::from_bytes(n, &c.sk.0).map_err(|e| Fail::new("interop:ref-sk-rejected", format!("Falcon-{}: a reference secret key does not decode here: {}", n, e)))?;
        ensure!(sk.to_bytes() == c.sk.0, "interop:ref-sk-reencode", "a reference secret key re-encodes differently");
        ensure!(sk.public().to_bytes() == c.pk.0, "interop:ref-key-pair", "the public key derived here from a reference secret key differs from the reference public key");
        for (i, msg) in messages(c.msg_seed, c.count).iter().enumerate() {
            // 3. a reference signature, padded and re-labelled, verifies here
            let rs = pq::sign(n, msg, &c.sk.0).ok_or_else(|| Fail::new("harness:reference", "reference signing refused its own key"))?;
            match keys::pqclean_to_native(&rs, n) {
                None => st.count("reference_signature_longer_than_fixed_length"),
                Some(nb) => {
                    let s = Sig::from_bytes(n, &nb).map_err(|e| Fail::new("interop:padded-sig-rejected", format!("a padded reference signature does not decode: {}", e)))?;
                    ensure!(api::verify(msg, &s, &pk), "interop:ref-sig-rejected", "Falcon-{}: a reference signature (padded, re-labelled) is rejected here; message of {} bytes", n, msg.len());
                    st.count(&format!("ref_to_native_{}", n));
                }
            }
            // 4. the imported key signs here; the reference verifies
            if i % 2 == 0 {
                let sig = api::sign_with(msg, &sk, Box::new(crate::util::chacha(c.msg_seed ^ (i as u64) << 8))).to_bytes();
                let pqsig = keys::native_to_pqclean(&sig, n).ok_or_else(|| Fail::new("interop:reframe", "a native signature could not be re-framed"))?;
                let ok = pq::verify(n, &pqsig, msg, &c.pk.0).unwrap_or(false);
                ensure!(ok, "interop:imported-key-sig-rejected", "Falcon-{}: a signature made here with an imported reference key is rejected by the reference verifier", n);
                st.count(&format!("imported_key_{}", n));
            }
        }
        st.nontrivial(&c.pk.0);
        st.count(&format!("reference_keys_{}", n));
        st.sample(&format!("reference_key_{}", n), || json!({"n": n, "pk_head": hex(&c.pk.0[..12]), "signatures_each_way": c.count}));
        Ok(())
    }
}

// ------------------------------------------------------------------ the two verifiers on crafted triples

/// Crafted (forged-key) triples inside the reference's signature format - s2 coefficients up to the
/// reference codec's limit of +-2047, norms around the bound - must get the same verdict from the
/// reference verifier and from verify here: a signature the reference accepts is one a reference
/// signer could have produced.
#[derive(Clone, Debug, Serialize, Deserialize)]
pub struct AgreeCase {
    n: usize,
    msg: Hex,
    sig: Hex,
    pk: Hex,
}

pub struct VerifierAgreement;

impl Sub for VerifierAgreement {
    type Case = AgreeCase;
    fn restrictable(&self) -> bool {
        true
    }
    fn name(&self) -> &'static str {
        "verifier_agreement"
    }
    fn strategy(&self, _env: &Env) -> BoxedStrategy<AgreeCase> {
        let delta = prop_oneof![3 => Just(0i64), 1 => Just(1i64), 1 => Just(-1i64), 3 => -3_000_000i64..0, 1 => 1i64..100_000];
        let spike = prop_oneof![2 => Just(0i64), 6 => prop_oneof![Just(127i64), Just(128), Just(255), Just(256), Just(511), Just(512), Just(1023), Just(1024), Just(-1024), Just(1025), Just(1500), Just(-1999), Just(2046), Just(2047), Just(-2047)], 2 => -2047i64..=2047];
        (prop_oneof![Just(512usize), Just(1024usize)], gen::message_strategy(), any::<u64>(), prop_oneof![Just(30.0f64), Just(165.0f64)], delta, spike)
            .prop_filter_map("forged-key construction failed", |(n, msg, seed, s2_sigma, delta, s2_spike)| {
                let spec = crate::c02::ForgeSpec { n, msg: msg.clone(), seed, s2_sigma, delta, edge: 0, s2_spike, wrap_last: false, neg_zero_last: false, s1_pattern: None, fill_to_end: None };
                crate::c02::forge(&spec).map(|(sig, pk)| AgreeCase { n, msg: Hex(msg), sig: Hex(sig), pk: Hex(pk) })
            })
            .boxed()
    }
    fn check(&self, c: &AgreeCase, st: &mut Stats) -> Result<(), Fail> {
        let n = c.n;
        let s2 = match refimpl::codec::decode(&c.sig.0[41.min(c.sig.0.len())..], n) {
            Some(v) => v,
            None => return Ok(()),
        };
        let max = s2.iter().map(|x| x.abs()).max().unwrap_or(0);
        if max > 2047 {
            return Ok(()); // outside the reference's signature format
        }
        let pqsig = match keys::native_to_pqclean(&c.sig.0, n) {
            Some(s) => s,
            None => return Ok(()),
        };
        let reference = match pq::verify(n, &pqsig, &c.msg.0, &c.pk.0) {
            Some(v) => v,
            None => return Ok(()),
        };
        let here = match (Sig::from_bytes(n, &c.sig.0), Pk::from_bytes(n, &c.pk.0)) {
            (Ok(s), Ok(p)) => api::verify(&c.msg.0, &s, &p),
            (e1, e2) => return Err(Fail::new("interop:crafted-not-decodable", format!("a triple the reference verifier handles does not decode here: {:?} / {:?}", e1.err(), e2.err()))),
        };
        ensure!(here == reference, "interop:verifiers-disagree", "Falcon-{}: the reference verifier says {} but verify here says {} (largest |s2 coefficient| = {})", n, reference, here, max);
        st.count(&format!("crafted_triples_{}_{}", n, if reference { "accepted" } else { "rejected" }));
        if max >= 1024 {
            st.count("crafted_triples_with_s2_coefficient_ge_1024");
        }
        st.nontrivial(&(&c.sig.0, &c.pk.0));
        st.sample("crafted", || json!({"n": n, "max_abs_s2": max, "reference_accepts": reference}));
        Ok(())
    }
}

const META: Meta = Meta {
    rule: "two generated families: (a) keys generated here from proptest seeds (random, all-zero, all-0xFF, single-bit) and the committed corpus seeds: each signature made here is re-framed (header 0x5n -> 0x3n, trailing zero bytes stripped) and must be accepted by PQClean's verifier under pk.to_bytes(); the exported secret key bytes must be usable by PQClean's signer, whose signatures (padded, re-labelled) must verify here; (b) key pairs generated by PQClean (OS randomness; the bytes are stored in the case): they must decode here, re-encode identically, derive the same public key, their PQClean signatures must verify here, and signatures made here with the imported key must verify in PQClean. (c) crafted forged-key triples inside the reference's format (s2 coefficients up to +-2047, in particular 1023/1024/2047, norms at and around the bound): the reference verifier and verify here must give the same verdict. Messages: empty, 1 byte, 96, 1000 bytes and random short. Non-trivial = every distinct key (each runs both directions); classes count signatures per direction and variant.",
    assumptions: &[
        "reference = PQClean's Falcon-512/1024 (clean or AVX2 build selected by pqcrypto-falcon 0.3.0), trusted as the meaning of 'the reference implementation'",
        "PQClean's key generation and signing read the operating system's randomness: a failing case is reproducible from the stored key/signature bytes, not from VERIF_SEED",
        "pqcrypto's detached_sign ignores the C return code: an empty result is taken to mean that the reference refused the key",
    ],
};

pub fn run(env: &Env, replay: Option<&Path>) -> i32 {
    let mut report = Report::new();
    let subs: [&dyn DynSub; 3] = [&NativeKey, &RefKey, &VerifierAgreement];
    if let Some(p) = replay {
        if let Err(e) = replay_file(env, &subs, p, &mut report) {
            eprintln!("harness: {}", e);
            return 2;
        }
        return finish(env, report, &META);
    }
    replay_corpus(env, &subs, &mut report);
    drive(env, &NativeKey, env.tier.pick(40, 3600), &mut report);
    drive(env, &RefKey, env.tier.pick(150, 16_000), &mut report);
    drive(env, &VerifierAgreement, env.tier.pick(6_000, 200_000), &mut report);
    finish(env, report, &META)
}

/// `fvh hunt-refkey <n> <count>`: reference key pairs in rare classes (an F or G coefficient at
/// +-127, an f or g coefficient at the end of its field, h with a zero first or last coefficient,
/// an encoding ending in a byte that text transports treat specially), printed as corpus cases of
/// `reference_key_here`. The reference draws from the operating system, so the keys themselves are
/// the reproducible unit.
pub fn hunt_refkey(n: usize, count: u64) {
    use std::collections::BTreeSet;
    let next = std::sync::atomic::AtomicU64::new(0);
    let seen: std::sync::Mutex<BTreeSet<String>> = std::sync::Mutex::new(BTreeSet::new());
    let fg_lim = if n == 512 { 31 } else { 15 };
    std::thread::scope(|sc| {
        for _ in 0..16 {
            sc.spawn(|| loop {
                let i = next.fetch_add(1, std::sync::atomic::Ordering::Relaxed);
                if i >= count {
                    break;
                }
                let (pk, sk) = pq::keypair(n);
                let Ok((f, g, cf)) = keys::decode_sk(&{ let mut b = sk.clone(); b[0] = 0x50 | (n.trailing_zeros() as u8); b }, n) else { continue };
                let Some(cg) = refimpl::zq::ring_div(&refimpl::zq::negacyclic_mul_fast(&g, &cf), &f) else { continue };
                let cg: Vec<i64> = cg.iter().map(|&x| refimpl::zq::centred(x)).collect();
                let h = keys::decode_pk(&{ let mut b = pk.clone(); b[0] = n.trailing_zeros() as u8; b }, n).unwrap_or_default();
                let mut tags = vec![];
                for (name, v, lim) in [("F", &cf, 127i64), ("G", &cg, 127), ("f", &f, fg_lim), ("g", &g, fg_lim)] {
                    let (mx, mn) = (*v.iter().max().unwrap(), *v.iter().min().unwrap());
                    if mx == lim { tags.push(format!("{}max", name)); }
                    if mn == -lim { tags.push(format!("{}min", name)); }
                    if mx == lim - 1 { tags.push(format!("{}max1", name)); }
                    if mn == -lim + 1 { tags.push(format!("{}min1", name)); }
                }
                if h.first() == Some(&0) { tags.push("h0zero".into()); }
                if h.last() == Some(&0) { tags.push("hlastzero".into()); }
                for (what, b) in [("pk", &pk), ("sk", &sk)] {
                    let l = *b.last().unwrap();
                    if [0x0au8, 0x0d, 0x00, 0x20, 0xff].contains(&l) { tags.push(format!("{}end{:02x}", what, l)); }
                }
                for t in tags {
                    let fresh = seen.lock().unwrap().insert(t.clone());
                    if fresh {
                        let case = json!({"property": "C16", "sub": "reference_key_here", "origin": "corpus", "case": RefCase { n, pk: Hex(pk.clone()), sk: Hex(sk.clone()), msg_seed: 1, count: 4 }});
                        let path = format!("corpus/C16/ref_{}_{}.json", n, t);
                        std::fs::write(&path, serde_json::to_string(&case).unwrap()).unwrap();
                        println!("{} after {} keys", path, i);
                    }
                }
            });
        }
    });
}
