//! C11 — NTT-based multiplication in Z_q[X]/(X^n+1) is exact; tables are what they claim to be.

use falcon_rust::verif_hooks::{intt, ntt, ntt_hadamard_mul, ntt_merge, ntt_split, tables};
use proptest::prelude::*;
use serde::{Deserialize, Serialize};
use serde_json::json;
use std::path::Path;

use crate::engine::*;
use crate::util::{to_i16, to_i64};
use refimpl::zq::{self, bitrev, invq, modq, powq};

const Q: i64 = 12289;

/// One entry of the precomputed tables (complete enumeration).
#[derive(Clone, Debug, Serialize, Deserialize)]
pub struct TableCase {
    /// "fwd" | "inv" | "ninv"
    what: String,
    i: usize,
}

pub struct Tables {
    fwd: Vec<i64>,
    inv: Vec<i64>,
    ninvs: Vec<(usize, i64)>,
}

impl Tables {
    pub fn new() -> Self {
        let (f, i) = tables::felt_tables();
        Tables { fwd: to_i64(&f), inv: to_i64(&i), ninvs: tables::felt_ninvs().into_iter().map(|(n, v)| (n, v as i64)).collect() }
    }
}

impl Sub for Tables {
    type Case = TableCase;
    fn restrictable(&self) -> bool {
        true
    }
    fn name(&self) -> &'static str {
        "ntt_tables"
    }
    fn strategy(&self, _env: &Env) -> BoxedStrategy<TableCase> {
        (prop_oneof![Just("fwd"), Just("inv")], 0usize..1024).prop_map(|(w, i)| TableCase { what: w.into(), i }).boxed()
    }
    fn check(&self, c: &TableCase, st: &mut Stats) -> Result<(), Fail> {
        ensure!(self.fwd.len() == 1024 && self.inv.len() == 1024, "ntt:table-length", "tables have {} / {} entries", self.fwd.len(), self.inv.len());
        // psi is the entry holding exponent 1, i.e. index bitrev(1) = 512
        let psi = self.fwd[512];
        ensure!(powq(psi, 1024) == Q - 1, "ntt:psi", "table[512] = {} is not a primitive 2048-th root of unity (psi^1024 = {})", psi, powq(psi, 1024));
        match c.what.as_str() {
            "fwd" => {
                let want = powq(psi, bitrev(c.i, 10) as u64);
                ensure!(self.fwd[c.i] == want, "ntt:table-fwd", "forward table[{}] = {} but psi^bitrev({}) = {}", c.i, self.fwd[c.i], c.i, want);
            }
            "inv" => {
                let want = invq(powq(psi, bitrev(c.i, 10) as u64));
                ensure!(self.inv[c.i] == want, "ntt:table-inv", "inverse table[{}] = {} but psi^-bitrev({}) = {}", c.i, self.inv[c.i], c.i, want);
            }
            "ninv" => {
                ensure!(c.i < self.ninvs.len(), "harness:bad-replay", "no such constant");
                let (n, v) = self.ninvs[c.i];
                ensure!((0..Q).contains(&v) && modq(n as i64 * v) == 1, "ntt:ninv", "stored inverse of n = {} is {} ({} * {} = {} mod q)", n, v, n, v, modq(n as i64 * v));
            }
            _ => return Err(Fail::new("harness:bad-replay", "unknown table")),
        }
        st.nontrivial_enumerated += 1;
        st.count(&format!("table_entries_{}", c.what));
        st.sample(&format!("table_{}", c.what), || json!({"what": c.what, "i": c.i}));
        Ok(())
    }
}

/// Transform of a basis vector X^i at length n (complete enumeration over i for every n).
#[derive(Clone, Debug, Serialize, Deserialize)]
pub struct BasisCase {
    n: usize,
    i: usize,
}

pub struct Basis;

impl Sub for Basis {
    type Case = BasisCase;
    fn restrictable(&self) -> bool {
        true
    }
    fn name(&self) -> &'static str {
        "ntt_basis_vectors"
    }
    fn strategy(&self, _env: &Env) -> BoxedStrategy<BasisCase> {
        (0u32..=10).prop_flat_map(|l| (Just(1usize << l), 0usize..(1usize << l))).prop_map(|(n, i)| BasisCase { n, i }).boxed()
    }
    fn check(&self, c: &BasisCase, st: &mut Stats) -> Result<(), Fail> {
        let n = c.n;
        ensure!(c.i < n, "harness:bad-replay", "i >= n");
        let mut x = vec![0i16; n];
        if n > 1 {
            x[1] = 1;
        } else {
            x[0] = 1;
        }
        let roots = to_i64(&ntt(&x));
        let mut e = vec![0i16; n];
        e[c.i] = 1;
        let t = to_i64(&ntt(&e));
        ensure!(t.len() == n, "ntt:length", "transform of length {} has length {}", n, t.len());
        if n > 1 {
            for k in 0..n {
                ensure!(powq(roots[k], n as u64) == Q - 1, "ntt:roots", "n = {}: evaluation point {} = {} is not a root of X^n + 1", n, k, roots[k]);
                ensure!(t[k] == powq(roots[k], c.i as u64), "ntt:basis", "n = {}: ntt(X^{})[{}] = {} but the evaluation point is {} and its power is {}", n, c.i, k, t[k], roots[k], powq(roots[k], c.i as u64));
            }
            if c.i == 1 {
                let mut sorted = roots.clone();
                sorted.sort();
                sorted.dedup();
                ensure!(sorted.len() == n, "ntt:roots-distinct", "n = {}: evaluation points are not distinct", n);
            }
        } else {
            ensure!(t == vec![1], "ntt:basis", "n = 1: ntt([1]) = {:?}", t);
        }
        let back = intt(&to_i16(&t));
        ensure!(back == e, "ntt:inverse", "n = {}: intt(ntt(X^{})) is not X^{}", n, c.i, c.i);
        st.nontrivial_enumerated += (n >= 2) as u64;
        st.count(&format!("basis_n{}", n));
        Ok(())
    }
}

#[derive(Clone, Debug, Serialize, Deserialize)]
pub struct ProductCase {
    a: Vec<i16>,
    b: Vec<i16>,
}

pub struct Product;

pub fn residue_vec(n: usize) -> BoxedStrategy<Vec<i16>> {
    let q = Q as i16;
    prop_oneof![
        5 => proptest::collection::vec(0i16..q, n),
        1 => Just(vec![q - 1; n]),
        1 => (0usize..n, 1i16..q).prop_map(move |(i, c)| {
            let mut v = vec![0i16; n];
            v[i] = c;
            v
        }),
        2 => (proptest::collection::vec((0usize..n, 0i16..q), 1..=4.min(n))).prop_map(move |es| {
            let mut v = vec![0i16; n];
            for (i, c) in es {
                v[i] = c;
            }
            v
        }),
        1 => proptest::collection::vec(prop_oneof![Just(0i16), Just(1), Just(q - 1), Just(6144), Just(6145)], n),
        // two to four terms at positions related by the ring's symmetries (round 12: spectra degenerate there)
        2 => proptest::collection::vec(
            (prop_oneof![Just(0usize), Just(n / 2), Just(n / 4), Just(3 * n / 4), Just(n - 1), 0usize..n],
             prop_oneof![Just(1i16), Just(q - 1), Just(6144i16), Just(6145i16), 1i16..q]),
            2..=4,
        )
        .prop_map(move |es| {
            let mut v = vec![0i16; n];
            for (i, c) in es {
                v[i] = c;
            }
            v
        }),
    ]
    .boxed()
}

impl Sub for Product {
    type Case = ProductCase;
    fn restrictable(&self) -> bool {
        true
    }
    fn name(&self) -> &'static str {
        "ntt_product"
    }
    fn strategy(&self, _env: &Env) -> BoxedStrategy<ProductCase> {
        let logn = prop_oneof![8 => 0u32..=8, 1 => Just(9u32), 1 => Just(10u32)];
        logn.prop_flat_map(|l| (residue_vec(1 << l), residue_vec(1 << l))).prop_map(|(a, b)| ProductCase { a, b }).boxed()
    }
    fn check(&self, c: &ProductCase, st: &mut Stats) -> Result<(), Fail> {
        let n = c.a.len();
        if n == 0 || !n.is_power_of_two() || n > 1024 || c.b.len() != n || c.a.iter().chain(c.b.iter()).any(|&x| x < 0 || x as i64 >= Q) {
            return Ok(()); // outside the domain
        }
        let ta = ntt(&c.a);
        let tb = ntt(&c.b);
        ensure!(ta.iter().chain(tb.iter()).all(|&x| (0..Q as i16).contains(&x)), "ntt:range", "transform output outside [0,q)");
        ensure!(intt(&ta) == c.a, "ntt:inverse", "n = {}: intt(ntt(a)) != a", n);
        ensure!(ntt(&c.a) == ta, "ntt:not-repeatable", "n = {}: a second ntt(a) right after the first gives a different result", n);
        let prod = intt(&ntt_hadamard_mul(&ta, &tb));
        let want = zq::negacyclic_mul(&to_i64(&c.a), &to_i64(&c.b));
        let pos = prod.iter().zip(want.iter()).position(|(x, y)| *x as i64 != *y);
        ensure!(pos.is_none(), "ntt:product", "n = {}: intt(ntt(a).ntt(b)) differs from the schoolbook negacyclic product at coefficient {}", n, pos.unwrap_or(0));
        if n >= 2 {
            let (f0, f1) = ntt_split(&ta);
            ensure!(ntt_merge(&f0, &f1) == ta, "ntt:split-merge", "n = {}: merge(split(F)) != F", n);
            // split yields the transforms of the even and odd parts
            let even: Vec<i16> = c.a.iter().step_by(2).cloned().collect();
            let odd: Vec<i16> = c.a.iter().skip(1).step_by(2).cloned().collect();
            ensure!(f0 == ntt(&even) && f1 == ntt(&odd), "ntt:split", "n = {}: split(ntt(a)) is not (ntt(a_even), ntt(a_odd))", n);
        }
        let nz = |v: &Vec<i16>| v.iter().any(|&x| x != 0);
        if n >= 2 && nz(&c.a) && nz(&c.b) {
            st.nontrivial(&(&c.a, &c.b));
        }
        st.count(&format!("products_n{}", n));
        st.sample(if n >= 512 { "product_large" } else { "product_small" }, || json!({"n": n, "a_head": c.a.iter().take(6).collect::<Vec<_>>(), "b_head": c.b.iter().take(6).collect::<Vec<_>>()}));
        Ok(())
    }
}

/// The inverse transform on structured transform-domain vectors (block patterns of extreme
/// values): since the forward transform is a bijection, intt(ntt(a)) = a for all a is equivalent
/// to ntt(intt(F)) = F for all F, and extreme spectra are where lazy reductions would overflow.
#[derive(Clone, Debug, Serialize, Deserialize)]
pub struct SpectrumCase {
    f: Vec<i16>,
}

pub struct Spectrum;

impl Sub for Spectrum {
    type Case = SpectrumCase;
    fn restrictable(&self) -> bool {
        true
    }
    fn name(&self) -> &'static str {
        "ntt_spectrum"
    }
    fn strategy(&self, _env: &Env) -> BoxedStrategy<SpectrumCase> {
        let q = Q as i16;
        (0u32..=10)
            .prop_flat_map(move |l| {
                let n = 1usize << l;
                let extreme = prop_oneof![3 => Just(0i16), 3 => Just(q - 1), 1 => Just(1i16), 1 => Just(6144i16), 1 => Just(6145i16), 1 => 0i16..q];
                let blocks = (0..=l, proptest::collection::vec(extreme.clone(), n)).prop_map(move |(j, vals)| {
                    let b = 1usize << j;
                    (0..n).map(|i| vals[i / b]).collect::<Vec<i16>>()
                });
                let two_valued = proptest::collection::vec(prop_oneof![Just(0i16), Just(q - 1)], n);
                let half_waves = (0..=l, any::<bool>(), extreme.clone(), extreme).prop_map(move |(j, phase, a, b)| {
                    let h = 1usize << j;
                    (0..n).map(|i| if ((i / h) % 2 == 0) == phase { a } else { b }).collect::<Vec<i16>>()
                });
                prop_oneof![3 => blocks, 2 => two_valued, 3 => half_waves, 1 => proptest::collection::vec(0i16..q, n)]
            })
            .prop_map(|f| SpectrumCase { f })
            .boxed()
    }
    fn check(&self, c: &SpectrumCase, st: &mut Stats) -> Result<(), Fail> {
        let n = c.f.len();
        if n == 0 || !n.is_power_of_two() || n > 1024 || c.f.iter().any(|&x| x < 0 || x as i64 >= Q) {
            return Ok(());
        }
        let a = intt(&c.f);
        ensure!(a.len() == n && a.iter().all(|&x| (0..Q as i16).contains(&x)), "ntt:range", "n = {}: inverse transform output outside [0,q)", n);
        let back = ntt(&a);
        let pos = back.iter().zip(c.f.iter()).position(|(x, y)| x != y);
        ensure!(pos.is_none(), "ntt:inverse-on-spectrum", "n = {}: ntt(intt(F)) differs from F at slot {}", n, pos.unwrap_or(0));
        if n <= 256 {
            // independent interpolation: a_i = n^-1 sum_k F_k r_k^-i with r_k = ntt(X)[k]
            let mut x = vec![0i16; n];
            if n > 1 {
                x[1] = 1;
            } else {
                x[0] = 1;
            }
            let roots = to_i64(&ntt(&x));
            let ninv = invq(n as i64);
            for i in (0..n).step_by((n / 16).max(1)) {
                let mut acc = 0i64;
                for k in 0..n {
                    let r = if n > 1 { invq(powq(roots[k], i as u64)) } else { 1 };
                    acc = (acc + c.f[k] as i64 * r) % Q;
                }
                ensure!(modq(acc * ninv) == a[i] as i64, "ntt:inverse-value", "n = {}: intt(F)[{}] = {} but interpolation gives {}", n, i, a[i], modq(acc * ninv));
            }
        }
        if n >= 2 && c.f.iter().any(|&x| x != 0) {
            st.nontrivial(&c.f);
        }
        st.count(&format!("spectra_n{}", n));
        st.sample("spectrum", || json!({"n": n, "f_head": c.f.iter().take(8).collect::<Vec<_>>()}));
        Ok(())
    }
}

/// The same low-degree polynomial pair, zero-padded, transformed and multiplied in several lengths
/// one after the other on one thread: every call must be right whatever was transformed before
/// (cached plans, memoised transforms, reused scratch space).
#[derive(Clone, Debug, Serialize, Deserialize)]
pub struct SeqCase {
    a_low: Vec<i16>,
    b_low: Vec<i16>,
    dims: Vec<u32>,
}

pub struct Sequence;

impl Sub for Sequence {
    type Case = SeqCase;
    fn restrictable(&self) -> bool {
        true
    }
    fn name(&self) -> &'static str {
        "ntt_same_operands_sequence"
    }
    fn strategy(&self, _env: &Env) -> BoxedStrategy<SeqCase> {
        let low = proptest::collection::vec(0i16..Q as i16, 1..=8);
        (low.clone(), low, proptest::collection::vec(3u32..=10, 2..=5)).prop_map(|(a_low, b_low, dims)| SeqCase { a_low, b_low, dims }).boxed()
    }
    fn check(&self, c: &SeqCase, st: &mut Stats) -> Result<(), Fail> {
        if c.a_low.len() > 8 || c.b_low.len() > 8 || c.dims.iter().any(|&l| !(3..=10).contains(&l)) || c.a_low.iter().chain(c.b_low.iter()).any(|&x| x < 0 || x as i64 >= Q) {
            return Ok(());
        }
        for (step, &l) in c.dims.iter().enumerate() {
            let n = 1usize << l;
            let mut a = vec![0i16; n];
            let mut b = vec![0i16; n];
            a[..c.a_low.len()].copy_from_slice(&c.a_low);
            b[..c.b_low.len()].copy_from_slice(&c.b_low);
            let (ta, tb) = (ntt(&a), ntt(&b));
            ensure!(intt(&ta) == a, "ntt:inverse-in-sequence", "call {} (n = {}, after lengths {:?}): intt(ntt(a)) != a for a low-degree a", step, n, &c.dims[..step]);
            let prod = intt(&ntt_hadamard_mul(&ta, &tb));
            let want = zq::negacyclic_mul(&to_i64(&a), &to_i64(&b));
            ensure!(to_i64(&prod) == want, "ntt:product-in-sequence", "call {} (n = {}, after lengths {:?}): the product of two low-degree polynomials differs from the schoolbook product", step, n, &c.dims[..step]);
        }
        st.count("same_operand_sequences");
        st.nontrivial(&(&c.a_low, &c.b_low, &c.dims));
        st.sample("sequence", || json!({"a_low": c.a_low, "b_low": c.b_low, "lengths": c.dims.iter().map(|l| 1usize << l).collect::<Vec<_>>()}));
        Ok(())
    }
}

const META: Meta = Meta {
    rule: "complete enumeration of both 1024-entry twiddle tables against psi^(+-bitrev10(i)) with psi := table[512] (checked to satisfy psi^1024 = -1), of the eleven stored n^-1 constants, and of all 2047 basis vectors X^i for n = 1..1024 (ntt(X^i)[k] = r_k^i with r_k = ntt(X)[k], r_k^n = -1, r_k pairwise distinct; round trip); proptest operand pairs for n = 1..1024 (uniform, sparse, two to four terms at symmetry-related positions 0, n/4, n/2, 3n/4, n-1, monomial, constant q-1, edge residues) compared with the schoolbook negacyclic product in i64, plus split/merge identities; structured transform-domain vectors (aligned blocks and half-waves of 0, q-1 and other extreme residues, two-valued patterns) through the inverse transform, checked by ntt(intt(F)) = F and an independent interpolation; the same low-degree operands zero-padded to 2-5 different lengths in sequence on one thread. Non-trivial = n >= 2 and both operands non-zero (hash-distinct); enumerated items are distinct by construction.",
    assumptions: &[
        "oracle: refimpl::zq schoolbook product and modular exponentiation",
        "the hook wrappers convert canonical residues without reducing them",
    ],
};

pub fn run(env: &Env, replay: Option<&Path>) -> i32 {
    let mut report = Report::new();
    let tables = Tables::new();
    let cold = crate::coldstart::ColdStart("C11");
    let subs: [&dyn DynSub; 6] = [&tables, &Basis, &Product, &Spectrum, &Sequence, &cold];
    if let Some(p) = replay {
        if let Err(e) = replay_file(env, &subs, p, &mut report) {
            eprintln!("harness: {}", e);
            return 2;
        }
        return finish(env, report, &META);
    }
    replay_corpus(env, &subs, &mut report);
    let t = ["fwd", "inv"].into_iter().flat_map(|w| (0..1024usize).map(move |i| TableCase { what: w.into(), i })).chain((0..tables.ninvs.len()).map(|i| TableCase { what: "ninv".into(), i }));
    drive_enumerated(env, &tables, t, &mut report);
    let b = (0u32..=10).flat_map(|l| (0..(1usize << l)).map(move |i| BasisCase { n: 1 << l, i }));
    drive_enumerated(env, &Basis, b, &mut report);
    report.notes.push("tables, n^-1 constants and basis vectors are enumerated completely; operand pairs are sampled, so exhaustive stays false for the property as a whole".into());
    drive(env, &Product, env.tier.pick(100_000, 1_000_000), &mut report);
    drive(env, &Spectrum, env.tier.pick(100_000, 1_000_000), &mut report);
    drive(env, &Sequence, env.tier.pick(20_000, 400_000), &mut report);
    // fresh processes whose threads make their first calls at the same moment
    report.notes.push(crate::coldstart::NOTE.to_string());
    drive(env, &cold, env.tier.pick(240, 6000), &mut report);
    finish(env, report, &META)
}
