//! Generators shared by several checks: compressed-signature bodies built from a grammar of
//! coefficient encodings and steered towards the end of the buffer, integer vectors, messages.

use proptest::prelude::*;
use serde::{Deserialize, Serialize};

/// One coefficient encoding: sign bit, 7 low bits, unary run of `high` zeros, terminator.
#[derive(Clone, Copy, Debug, Serialize, Deserialize, PartialEq, Eq, Hash)]
pub struct Coef {
    pub neg: bool,
    pub low: u8,
    pub high: u16,
}

impl Coef {
    pub fn bits(&self) -> usize {
        9 + self.high as usize
    }
    pub fn push(&self, out: &mut Vec<bool>) {
        out.push(self.neg);
        for j in (0..7).rev() {
            out.push((self.low >> j) & 1 == 1);
        }
        for _ in 0..self.high {
            out.push(false);
        }
        out.push(true);
    }
    pub fn value(&self) -> i64 {
        let m = ((self.high as i64) << 7) | self.low as i64;
        if self.neg {
            -m
        } else {
            m
        }
    }
}

#[derive(Clone, Debug, Serialize, Deserialize, PartialEq, Eq, Hash)]
pub enum Tail {
    Zeros,
    Ones,
    Garbage(u64),
}

/// How a body is assembled. `steer = Some((j, d, at))` adjusts the unary runs of the first j
/// coefficients so that coefficient j starts exactly at bit 8*len + d; the slack is put into the
/// coefficient with index `at` (mod j) when `single`, otherwise spread in runs of at most 94.
#[derive(Clone, Debug, Serialize, Deserialize, PartialEq, Eq, Hash)]
pub struct BodySpec {
    pub n: usize,
    pub len: usize,
    pub coefs: Vec<Coef>,
    pub steer: Option<(usize, i32, usize, bool)>,
    pub tail: Tail,
    pub flips: Vec<u16>,
    /// when false, every "negative zero" (1 0000000 1) left after steering is turned into +0
    pub allow_neg_zero: bool,
}

impl BodySpec {
    /// The coefficient list after steering.
    pub fn steered(&self) -> Vec<Coef> {
        let mut coefs = self.coefs.clone();
        if let Some((j, d, at, single)) = self.steer {
            let j = j.min(coefs.len());
            if j > 0 {
                let target = (8 * self.len as i64 + d as i64).max(9 * j as i64) as usize;
                let mut total: usize = coefs[..j].iter().map(|c| c.bits()).sum();
                // shrink runs while too long
                let mut i = 0;
                while total > target && i < j {
                    let cut = (total - target).min(coefs[i].high as usize);
                    coefs[i].high -= cut as u16;
                    total -= cut;
                    i += 1;
                }
                if total < target {
                    let mut slack = target - total;
                    if single {
                        let k = at % j;
                        let add = slack.min(60000 - coefs[k].high as usize);
                        coefs[k].high += add as u16;
                    } else {
                        let mut k = at % j;
                        let mut rounds = 0;
                        while slack > 0 && rounds < 4 * j {
                            let room = 94usize.saturating_sub(coefs[k].high as usize);
                            let add = slack.min(room);
                            coefs[k].high += add as u16;
                            slack -= add;
                            k = (k + 1) % j;
                            rounds += 1;
                        }
                    }
                }
            }
        }
        if !self.allow_neg_zero {
            for c in coefs.iter_mut() {
                if c.low == 0 && c.high == 0 {
                    c.neg = false;
                }
            }
        }
        coefs
    }

    pub fn render(&self) -> Vec<u8> {
        let coefs = self.steered();
        let want = 8 * self.len;
        let mut bits: Vec<bool> = Vec::with_capacity(want + 64);
        for c in &coefs {
            if bits.len() > want {
                break;
            }
            c.push(&mut bits);
        }
        if bits.len() < want {
            match self.tail {
                Tail::Zeros => bits.resize(want, false),
                Tail::Ones => bits.resize(want, true),
                Tail::Garbage(seed) => {
                    let mut s = seed;
                    while bits.len() < want {
                        s = crate::util::mix(s);
                        bits.push(s & 1 == 1);
                    }
                }
            }
        }
        bits.truncate(want);
        for &f in &self.flips {
            if want > 0 {
                let i = crate::engine::pick_index(f, want);
                bits[i] = !bits[i];
            }
        }
        refimpl::codec::pack(&bits)
    }
}

pub fn coef_strategy() -> BoxedStrategy<Coef> {
    let high = prop_oneof![
        30 => 0u16..4,
        4 => 4u16..12,
        2 => 88u16..98,
        3 => 94u16..=96, // the codec's cap on a unary run, and one either side
        1 => 120u16..135,
        1 => 250u16..262,
        1 => 505u16..520,
        1 => 0u16..1100,
    ];
    let low = prop_oneof![6 => 0u8..128, 1 => Just(0u8), 1 => Just(127u8), 1 => Just(1u8)];
    (any::<bool>(), low, high).prop_map(|(neg, low, high)| Coef { neg, low, high }).boxed()
}

/// Typical coefficients only (what an honest signer produces).
pub fn small_coef_strategy() -> BoxedStrategy<Coef> {
    (any::<bool>(), 0u8..128, prop_oneof![8 => 0u16..3, 1 => 3u16..6]).prop_map(|(neg, low, high)| Coef { neg, low, high }).boxed()
}

/// Bodies for given (n, len): a list of about n coefficient encodings, most of the time steered so
/// that one of the last coefficients starts within [-24, +8] bits of the end of the buffer.
pub fn body_strategy(n: usize, len: usize) -> BoxedStrategy<BodySpec> {
    let count = prop_oneof![6 => Just(n), 1 => Just(n.saturating_sub(1).max(1)), 1 => Just(n + 1), 1 => 1usize..=n];
    let coefs = count.prop_flat_map(|k| {
        prop_oneof![
            3 => proptest::collection::vec(small_coef_strategy(), k),
            1 => proptest::collection::vec(coef_strategy(), k),
        ]
    });
    let steer = prop_oneof![
        1 => Just(None),
        8 => (0usize..4, -24i32..=8, any::<usize>(), any::<bool>()).prop_map(move |(back, d, at, single)| Some((back, d, at, single))),
    ];
    let tail = prop_oneof![6 => Just(Tail::Zeros), 1 => Just(Tail::Ones), 2 => any::<u64>().prop_map(Tail::Garbage)];
    let flips = prop_oneof![6 => Just(vec![]), 2 => proptest::collection::vec(any::<u16>(), 1..3)];
    // negative zero (1 0000000 1) is rejected wherever it occurs; keep it to one body in eight so
    // that the other rules are reached
    let allow_neg_zero = prop_oneof![7 => Just(false), 1 => Just(true)];
    (coefs, steer, tail, flips, allow_neg_zero)
        .prop_map(move |(coefs, steer, tail, flips, allow_neg_zero)| {
            let k = coefs.len();
            // `back` counts from the end of the list: coefficient k-1-back is the one that is steered
            let steer = steer.map(|(back, d, at, single)| (k.saturating_sub(1 + back.min(k.saturating_sub(1))).max(0), d, at, single));
            // steering index 0 would mean "nothing before it": use k-1 when the list has one element
            let steer = steer.map(|(j, d, at, single)| if j == 0 { (k.min(1), d, at, single) } else { (j, d, at, single) });
            BodySpec { n, len, coefs, steer, tail, flips, allow_neg_zero }
        })
        .boxed()
}

/// (n, len) pairs: small shapes and the two production shapes.
pub fn shape_strategy() -> BoxedStrategy<(usize, usize)> {
    prop_oneof![
        4 => (1usize..=12).prop_flat_map(|n| (Just(n), (n * 9 / 8).max(1)..=(2 * n + 4))),
        3 => Just((512usize, 625usize)),
        2 => Just((1024usize, 1239usize)),
        1 => (1usize..=70, 1usize..=90),
    ]
    .boxed()
}

/// Integer vectors in the codec's domain |v| < 12160.
pub fn vector_strategy(n: usize) -> BoxedStrategy<Vec<i16>> {
    let gauss = (any::<u64>()).prop_map(move |seed| {
        // sum of uniforms ~ Gaussian with sigma about 165
        let mut s = seed;
        (0..n)
            .map(|_| {
                let mut acc = 0i64;
                for _ in 0..12 {
                    s = crate::util::mix(s);
                    acc += (s % 331) as i64 - 165;
                }
                (acc as f64 * 165.0 / (95.55 * 3.4641)) as i16
            })
            .collect::<Vec<i16>>()
    });
    let elem = prop_oneof![
        10 => -400i16..=400,
        2 => -12159i16..=12159,
        1 => prop_oneof![Just(12159i16), Just(-12159i16), Just(0i16), Just(127i16), Just(128i16), Just(-128i16), Just(-127i16), Just(12032i16)],
    ];
    prop_oneof![
        3 => gauss,
        3 => proptest::collection::vec(elem, n),
        1 => Just(vec![0i16; n]),
        1 => prop_oneof![Just(12159i16), Just(-12159i16)].prop_map(move |x| vec![x; n]),
        1 => (proptest::collection::vec(-300i16..=300, n), any::<u16>(), -12159i16..=12159).prop_map(move |(mut v, at, x)| {
            let i = crate::engine::pick_index(at, n);
            v[i] = x;
            v
        }),
    ]
    .boxed()
}

/// Messages: lengths chosen so that 40 + len straddles the SHAKE-256 rate (136) and its multiples.
pub fn message_strategy() -> BoxedStrategy<Vec<u8>> {
    // every length up to 600 has weight (a defect may live in any window of lengths), with extra
    // weight on: empty and tiny messages, 40 + len at a multiple of the SHAKE-256 rate (136) +-2,
    // powers of two +-2, and a thin tail of long messages
    let len = prop_oneof![
        2 => Just(0usize),
        2 => 1usize..3,
        5 => 3usize..65,
        4 => 0usize..600,
        2 => (1usize..40, 0usize..5).prop_map(|(k, d)| 136 * k - 40 + d - 2),
        1 => 254usize..259,
        1 => 600usize..5000,
        1 => prop_oneof![4 => 1022usize..1027, 4 => 4094usize..4099, 4 => 65534usize..65539, 1 => 1_048_574usize..1_048_579],
    ];
    let fill = prop_oneof![6 => Just(None), 1 => Just(Some(0u8)), 1 => Just(Some(0xFFu8))];
    (len, fill, any::<u64>())
        .prop_map(|(n, fill, seed)| match fill {
            Some(b) => vec![b; n],
            None => {
                let mut s = seed;
                (0..n)
                    .map(|_| {
                        s = crate::util::mix(s);
                        s as u8
                    })
                    .collect()
            }
        })
        .boxed()
}

pub fn seed_strategy() -> BoxedStrategy<[u8; 32]> {
    prop_oneof![
        12 => any::<[u8; 32]>(),
        1 => Just([0u8; 32]),
        1 => Just([0xFFu8; 32]),
        1 => (0usize..256).prop_map(|i| {
            let mut s = [0u8; 32];
            s[i / 8] = 1 << (i % 8);
            s
        }),
    ]
    .boxed()
}
