// Bodies of the coverage-guided fuzz targets. This file is `include!`d by the cargo-fuzz crate
// (nightly, libFuzzer) and compiled into the harness (stable) so that every artifact libFuzzer
// saves can be replayed with `./check <ID> --replay <artifact>`.
//
// A violated oracle panics with a message starting with "ORACLE:"; a panic inside the library is
// itself a violation of C03. Each body is a pure function of its input bytes.

pub mod fuzzbody {
    use falcon_rust::verif_hooks as hooks;
    use falcon_rust::{falcon1024, falcon512};
    use refimpl::{codec, keys, sampler};

    fn params(n: usize) -> refimpl::params::Params {
        refimpl::params::params(n)
    }

    /// C03 + C06: first byte selects (decoder, variant, mode); the rest is the input.
    pub fn decoders(data: &[u8]) {
        if data.is_empty() {
            return;
        }
        let sel = data[0];
        let rest = &data[1..];
        let n = if sel & 1 == 0 { 512 } else { 1024 };
        // secret keys cost a millisecond each (tree construction): one selector value in eight
        match (sel >> 1) % 8 {
            0 | 1 => public_key(n, rest),
            2 => secret_key(n, rest),
            3 => signature(n, rest),
            4 | 5 | 6 => {
                // a body under a valid header and salt, through from_bytes and verify
                let p = params(n);
                let mut sig = vec![keys::native_sig_header(n)];
                sig.extend(std::iter::repeat(0x5Au8).take(40));
                let mut body = rest.to_vec();
                body.resize(p.sig_len - 41, 0);
                sig.extend(body);
                verify(n, &sig, &[], rest.first().cloned().unwrap_or(0));
            }
            _ => {
                // whole signature bytes and a message taken from the input
                let (msg, sig) = rest.split_at(rest.len().min(8));
                verify(n, sig, msg, sel);
            }
        }
    }

    fn public_key(n: usize, b: &[u8]) {
        let rule = keys::decode_pk(b, n).err();
        let got = if n == 512 { falcon512::PublicKey::from_bytes(b).map(|k| k.to_bytes()).ok() } else { falcon1024::PublicKey::from_bytes(b).map(|k| k.to_bytes()).ok() };
        strict("public key", b, rule.map(|r| format!("{:?}", r)), got);
    }

    fn secret_key(n: usize, b: &[u8]) {
        let rule = keys::sk_format_reject(b, n);
        let got = if n == 512 { falcon512::SecretKey::from_bytes(b).map(|k| k.to_bytes()).ok() } else { falcon1024::SecretKey::from_bytes(b).map(|k| k.to_bytes()).ok() };
        strict("secret key", b, rule.map(|r| format!("{:?}", r)), got);
    }

    fn signature(n: usize, b: &[u8]) {
        let rule = keys::split_sig(b, n).err();
        let got = if n == 512 { falcon512::Signature::from_bytes(b).map(|k| k.to_bytes()).ok() } else { falcon1024::Signature::from_bytes(b).map(|k| k.to_bytes()).ok() };
        strict("signature", b, rule.map(|r| format!("{:?}", r)), got);
    }

    fn strict(what: &str, b: &[u8], rule: Option<String>, reencoded: Option<Vec<u8>>) {
        if let Some(again) = reencoded {
            if let Some(r) = rule {
                panic!("ORACLE: C06 {} decoder accepts a string the format rules reject ({})", what, r);
            }
            if again != b {
                panic!("ORACLE: C06 {} decoder accepts a string whose re-encoding differs", what);
            }
        }
    }

    fn verify(n: usize, sig: &[u8], msg: &[u8], pk_kind: u8) {
        let p = params(n);
        // a well-formed public key derived from the selector: h = 0, h = 1 or a fixed pattern
        let mut h = vec![0i64; n];
        match pk_kind % 3 {
            0 => {}
            1 => h[0] = 1,
            _ => {
                for (i, x) in h.iter_mut().enumerate() {
                    *x = ((i as i64 * 7919) + pk_kind as i64) % 12289;
                }
            }
        }
        let pk = keys::encode_pk(&h);
        debug_assert_eq!(pk.len(), p.pk_len);
        let got = if n == 512 {
            match (falcon512::Signature::from_bytes(sig), falcon512::PublicKey::from_bytes(&pk)) {
                (Ok(s), Ok(k)) => Some(falcon512::verify(msg, &s, &k)),
                _ => None,
            }
        } else {
            match (falcon1024::Signature::from_bytes(sig), falcon1024::PublicKey::from_bytes(&pk)) {
                (Ok(s), Ok(k)) => Some(falcon1024::verify(msg, &s, &k)),
                _ => None,
            }
        };
        if let Some(v) = got {
            // C02 for free: the answer must be the specification's
            let want = refimpl::verify::spec_verify(msg, sig, &pk, n);
            if v != want {
                panic!("ORACLE: C02 verify returns {} but the specification says {}", v, want);
            }
        }
    }

    /// C07: first two bytes choose n (1..=64, or a production size); the rest is the string.
    pub fn codec(data: &[u8]) {
        if data.len() < 3 {
            return;
        }
        let n = match data[0] {
            0xFF => 512,
            0xFE => 1024,
            b => 1 + (b as usize % 64),
        };
        let mode = data[1];
        let x = &data[2..];
        let want = codec::decode(x, n);
        let got = hooks::decompress(x, n);
        match (&got, &want) {
            (Some(g), Some(w)) => {
                if g.iter().map(|&v| v as i64).collect::<Vec<_>>() != *w {
                    panic!("ORACLE: C07 decompress returns a different vector than Algorithm 18");
                }
                if hooks::compress(g, x.len()).as_deref() != Some(x) {
                    panic!("ORACLE: C07 an accepted string does not re-compress to itself");
                }
            }
            (None, None) => {}
            (Some(_), None) => panic!("ORACLE: C07 decompress accepts a string Algorithm 18 rejects"),
            (None, Some(_)) => panic!("ORACLE: C07 decompress rejects a well-formed encoding"),
        }
        // and the other direction: read the bytes as a vector, compress into a budget near the need
        if mode & 1 == 1 && x.len() >= 2 {
            let v: Vec<i16> = x.chunks_exact(2).take(n).map(|c| (i16::from_le_bytes([c[0], c[1]]) % 12160).clamp(-12159, 12159)).collect();
            if !v.is_empty() {
                let v64: Vec<i64> = v.iter().map(|&a| a as i64).collect();
                let need = (codec::total_bits(&v64) + 7) / 8;
                let budget = (need + (mode >> 1) as usize % 5).saturating_sub(2);
                let w = codec::encode(&v64, budget);
                let g = hooks::compress(&v, budget);
                if g != w {
                    panic!("ORACLE: C07 compress differs from Algorithm 17 (n = {}, budget = {})", v.len(), budget);
                }
                if let Some(bytes) = g {
                    if hooks::decompress(&bytes, v.len()).as_ref() != Some(&v) {
                        panic!("ORACLE: C07 decompress(compress(v)) != v");
                    }
                }
            }
        }
    }

    /// C09: the building blocks and the sampler against the integer models.
    pub fn sampler_target(data: &[u8]) {
        if data.len() < 26 {
            return;
        }
        let f = |b: &[u8]| f64::from_le_bytes([b[0], b[1], b[2], b[3], b[4], b[5], b[6], b[7]]);
        let unit = |b: &[u8]| (u64::from_le_bytes([b[0], b[1], b[2], b[3], b[4], b[5], b[6], b[7]]) >> 11) as f64 / 9007199254740992.0;
        // base sampler
        let mut nine = [0u8; 9];
        nine.copy_from_slice(&data[..9]);
        let u = sampler::u72_from_bytes(&nine);
        if hooks::samplerz::base_sampler(nine) as i64 != sampler::base_sampler_u(u) {
            panic!("ORACLE: C09 base_sampler differs from Algorithm 12");
        }
        // BerExp: x in [0, 64), ccs in (0, 1]
        let x = unit(&data[9..17]) * 64.0 * if data[9] & 1 == 0 { 1.0 } else { 0.03 };
        let ccs = 1.0 - unit(&data[17..25]) * 0.35;
        let mut seven = [0u8; 7];
        let avail = (data.len() - 25).min(7);
        seven[..avail].copy_from_slice(&data[25..25 + avail]);
        let allowed = sampler::ber_exp_allowed(x, ccs, &seven);
        let got = hooks::samplerz::ber_exp(x, ccs, seven);
        if !allowed.contains(&sampler::Ber::Undetermined) {
            let g = if got { sampler::Ber::Accept } else { sampler::Ber::Reject };
            if !allowed.contains(&g) {
                panic!("ORACLE: C09 ber_exp differs from Algorithm 14");
            }
        }
        if x <= sampler::LN2 && hooks::samplerz::approx_exp(x, ccs) != sampler::approx_exp(x, ccs) {
            panic!("ORACLE: C09 approx_exp differs from Algorithm 13");
        }
        // SamplerZ on the remaining bytes as the stream, zero-extended by a fixed uniform tail
        let _ = f;
        let mu = (unit(&data[9..17]) - 0.5) * 400.0;
        let sigma = 1.2778336969128337 + unit(&data[17..25]) * (1.8205 - 1.2778336969128337);
        let stream: Vec<u8> = data[25..].to_vec();
        let tail = |i: usize| -> u8 {
            let mut s = i as u64 ^ 0x9E3779B97F4A7C15;
            s = (s ^ (s >> 30)).wrapping_mul(0xBF58476D1CE4E5B9);
            s = (s ^ (s >> 27)).wrapping_mul(0x94D049BB133111EB);
            (s >> 24) as u8
        };
        let mut i = 0usize;
        let mut next = || {
            let b = if i < stream.len() { stream[i] } else { tail(i) };
            i += 1;
            Some(b)
        };
        if let Some(t) = sampler::sampler_z(mu, sigma, 1.2778336969128337, &mut next, 10_000) {
            if !t.ambiguous {
                struct R<'a> {
                    s: &'a [u8],
                    i: usize,
                    tail: &'a dyn Fn(usize) -> u8,
                }
                impl<'a> rand::RngCore for R<'a> {
                    fn next_u32(&mut self) -> u32 {
                        let b = if self.i < self.s.len() { self.s[self.i] } else { (self.tail)(self.i) };
                        self.i += 1;
                        b as u32
                    }
                    fn next_u64(&mut self) -> u64 {
                        self.next_u32() as u64
                    }
                    fn fill_bytes(&mut self, d: &mut [u8]) {
                        for x in d.iter_mut() {
                            *x = self.next_u32() as u8;
                        }
                    }
                    fn try_fill_bytes(&mut self, d: &mut [u8]) -> Result<(), rand::Error> {
                        self.fill_bytes(d);
                        Ok(())
                    }
                }
                let mut r = R { s: &stream, i: 0, tail: &tail };
                let z = hooks::samplerz::sampler_z(mu, sigma, 1.2778336969128337, &mut r) as i64;
                if z != t.z || r.i != t.bytes_consumed {
                    panic!("ORACLE: C09 sampler_z differs from Algorithm 15 (z {} vs {}, bytes {} vs {})", z, t.z, r.i, t.bytes_consumed);
                }
            }
        }
    }
}
