//! C14 — HashToPoint equals the specified SHAKE-256 rejection sampler (Algorithm 3).

use falcon_rust::verif_hooks::hash_to_point;
use proptest::prelude::*;
use serde::{Deserialize, Serialize};
use serde_json::json;
use std::path::Path;

use crate::engine::*;
use crate::util::{hex, to_i64, Hex};

#[derive(Clone, Debug, Serialize, Deserialize)]
pub struct HashCase {
    s: Hex,
}

pub struct HashPoint;

impl Sub for HashPoint {
    type Case = HashCase;
    fn restrictable(&self) -> bool {
        true
    }
    fn name(&self) -> &'static str {
        "hash_to_point"
    }
    fn strategy(&self, _env: &Env) -> BoxedStrategy<HashCase> {
        let len = prop_oneof![
            1 => Just(0usize), 1 => Just(1usize), 1 => Just(40usize),
            2 => 134usize..=138, 2 => 270usize..=274, 1 => 406usize..=410,
            8 => 2usize..=700,
            1 => prop_oneof![1000usize..=1100, 4090usize..=4100, 8186usize..=8200, 65530usize..=65540],
        ];
        let content = prop_oneof![
            8 => len.clone().prop_flat_map(|n| proptest::collection::vec(any::<u8>(), n)),
            1 => (len.clone(), any::<u8>()).prop_map(|(n, b)| vec![b; n]),
            1 => (len, any::<u8>()).prop_map(|(n, b)| (0..n).map(|i| b.wrapping_add(i as u8)).collect()),
        ];
        content.prop_map(|s| HashCase { s: Hex(s) }).boxed()
    }
    fn check(&self, c: &HashCase, st: &mut Stats) -> Result<(), Fail> {
        let s = &c.s.0;
        let (want1024, chunks) = refimpl::hash::hash_to_point_traced(s, 1024);
        let got1024 = to_i64(&hash_to_point(s, 1024));
        let got512 = to_i64(&hash_to_point(s, 512));
        let first_diff = |a: &[i64], b: &[i64]| a.iter().zip(b.iter()).position(|(x, y)| x != y).unwrap_or(a.len().min(b.len()));
        ensure!(got1024.len() == 1024 && got512.len() == 512, "hash:length", "wrong number of coefficients: {} / {}", got512.len(), got1024.len());
        ensure!(got1024.iter().chain(got512.iter()).all(|&x| (0..12289).contains(&x)), "hash:range", "coefficient outside [0, q)");
        ensure!(got1024 == want1024, "hash:1024", "Falcon-1024 point differs from Algorithm 3 at coefficient {}", first_diff(&got1024, &want1024));
        ensure!(got512[..] == want1024[..512], "hash:512", "Falcon-512 point differs from Algorithm 3 at coefficient {}", first_diff(&got512, &want1024[..512]));
        ensure!(got512[..] == got1024[..512], "hash:prefix", "Falcon-512 point is not the first half of the Falcon-1024 point");
        let again = to_i64(&hash_to_point(s, 1024));
        ensure!(again == got1024, "hash:deterministic", "two calls returned different points");
        // classes: did the consumed stream exercise the rejection, and its boundary?
        let rejected = chunks.iter().filter(|&&t| t >= 61445).count();
        let boundary = chunks.iter().filter(|&&t| (61444..=61446).contains(&t)).count();
        if rejected > 0 {
            st.nontrivial(s);
            st.count("strings_with_rejected_chunk");
        }
        if boundary > 0 {
            st.count("strings_with_boundary_chunk_61444_61446");
            if chunks.contains(&61445) {
                st.count("strings_with_chunk_61445");
            }
            if chunks.contains(&61444) {
                st.count("strings_with_chunk_61444");
            }
            st.sample("boundary", || json!({"s": hex(s), "chunks_read": chunks.len(), "rejected": rejected}));
        }
        st.add("chunks_read", chunks.len() as u64);
        st.add("chunks_rejected", rejected as u64);
        match s.len() {
            0 => st.count("empty_string"),
            134..=138 | 270..=274 | 406..=410 => st.count("length_at_rate_boundary"),
            _ => {}
        }
        st.sample("string", || json!({"s": hex(&s[..s.len().min(24)]), "len": s.len(), "chunks_read": chunks.len(), "rejected": rejected}));
        Ok(())
    }
}

/// A short history of related strings hashed one after the other on the same thread with the same
/// degree: prefixes, extensions, the empty string, equal-length variants. Every result must be the
/// reference's, whatever was hashed before (memoisation, reused buffers, incremental hashing).
#[derive(Clone, Debug, Serialize, Deserialize)]
pub struct SeqCase {
    base: Hex,
    /// each step: (n, kind, parameter) - the string is derived from `base`
    steps: Vec<(usize, u8, u16)>,
}

pub struct HashSequence;

fn derive(base: &[u8], kind: u8, p: u16) -> Vec<u8> {
    match kind % 7 {
        0 => base.to_vec(),
        1 => base[..crate::engine::pick_index(p, base.len() + 1)].to_vec(), // a prefix (possibly empty)
        2 => {
            let mut v = base.to_vec();
            v.extend((0..(p % 200) as usize + 1).map(|i| (p as usize + i) as u8)); // an extension
            v
        }
        3 => vec![], // the empty string
        4 => {
            let mut v = base.to_vec(); // same length, one byte changed
            if !v.is_empty() {
                let i = crate::engine::pick_index(p, v.len());
                v[i] ^= 0x01 | (p as u8);
            }
            v
        }
        5 => {
            let mut v = base.to_vec(); // one zero byte appended
            v.push(0);
            v
        }
        _ => base.iter().rev().cloned().collect(),
    }
}

impl Sub for HashSequence {
    type Case = SeqCase;
    fn restrictable(&self) -> bool {
        true
    }
    fn name(&self) -> &'static str {
        "hash_sequence"
    }
    fn strategy(&self, _env: &Env) -> BoxedStrategy<SeqCase> {
        let base = prop_oneof![6 => proptest::collection::vec(any::<u8>(), 0..200), 1 => proptest::collection::vec(any::<u8>(), 4000..4200)];
        let step = (prop_oneof![Just(512usize), Just(1024usize)], 0u8..7, any::<u16>());
        (base, proptest::collection::vec(step, 2..8)).prop_map(|(b, steps)| SeqCase { base: Hex(b), steps }).boxed()
    }
    fn check(&self, c: &SeqCase, st: &mut Stats) -> Result<(), Fail> {
        let mut prev: Option<(usize, Vec<u8>)> = None;
        for (i, &(n, kind, p)) in c.steps.iter().enumerate() {
            if n != 512 && n != 1024 {
                return Ok(());
            }
            let s = derive(&c.base.0, kind, p);
            let want = refimpl::hash::hash_to_point(&s, n);
            let got = to_i64(&hash_to_point(&s, n));
            ensure!(got == want, "hash:after-history", "step {}: hash_to_point of a {}-byte string (n = {}) differs from Algorithm 3 after hashing {} before it", i, s.len(), n, match &prev { Some((pn, ps)) => format!("a {}-byte string with n = {} ({})", ps.len(), pn, if s.starts_with(ps) || ps.starts_with(&s) { "one is a prefix of the other" } else { "unrelated" }), None => "nothing".to_string() });
            if let Some((pn, ps)) = &prev {
                if *pn == n && *ps != s && (s.starts_with(ps) || ps.starts_with(&s)) {
                    st.count("consecutive_same_degree_prefix_related_pairs");
                    st.nontrivial(&(&c.base.0, i, kind, p));
                }
                if *pn == n && ps.len() == s.len() && *ps != s {
                    st.count("consecutive_same_degree_equal_length_pairs");
                }
            }
            prev = Some((n, s));
        }
        st.count("hash_sequences");
        st.sample("sequence", || json!({"base_len": c.base.0.len(), "steps": c.steps}));
        Ok(())
    }
}

const META: Meta = Meta {
    rule: "proptest byte strings of length 0..410 (emphasis on 0, 1, 40 and on lengths around multiples of the SHAKE-256 rate 136) and, one in seventeen, long strings around 1 KiB, 4 KiB, 8 KiB and 64 KiB, random / constant / counting content; each is hashed for n = 512 and n = 1024 and compared with an independent Keccak-f[1600] + Algorithm 3. Non-trivial = the consumed stream contains a rejected 16-bit chunk (>= 61445); strings whose stream contains the boundary values 61444/61445/61446 are counted separately. Distinct by hash of the string. Second sub-check: histories of 2-7 related strings (prefixes, extensions, the empty string, equal-length variants of one base string) hashed consecutively on one thread, each compared with the reference (non-trivial = a consecutive same-degree pair in which one string is a proper prefix of the other).",
    assumptions: &[
        "oracle: refimpl::keccak (checked against the NIST SHAKE-256 vectors for '' and 'abc') and refimpl::hash (Algorithm 3)",
    ],
};

pub fn run(env: &Env, replay: Option<&Path>) -> i32 {
    let mut report = Report::new();
    let cold = crate::coldstart::ColdStart("C14");
    let subs: [&dyn DynSub; 3] = [&HashPoint, &HashSequence, &cold];
    if let Some(p) = replay {
        if let Err(e) = replay_file(env, &subs, p, &mut report) {
            eprintln!("harness: {}", e);
            return 2;
        }
        return finish(env, report, &META);
    }
    replay_corpus(env, &subs, &mut report);
    drive(env, &HashPoint, env.tier.pick(200_000, 4_000_000), &mut report);
    drive(env, &HashSequence, env.tier.pick(40_000, 800_000), &mut report);
    // fresh processes whose threads make their first calls at the same moment
    report.notes.push(crate::coldstart::NOTE.to_string());
    drive(env, &cold, env.tier.pick(240, 6000), &mut report);
    finish(env, report, &META)
}

/// `fvh hunt-c14 <count> <keep>`: among <count> strings "unlucky-<i>" (as bytes), the <keep> whose
/// SHAKE-256 stream makes HashToPoint read the most 16-bit chunks, for n = 512 and for n = 1024
/// (computed with the reference model only). Such strings sit in the far tail of the rejection
/// sampler's running time; they go to the corpus of C14 and C03.
pub fn hunt(count: u64, keep: usize) {
    let best: std::sync::Mutex<(Vec<(usize, u64)>, Vec<(usize, u64)>)> = std::sync::Mutex::new((vec![], vec![]));
    let next = std::sync::atomic::AtomicU64::new(0);
    std::thread::scope(|sc| {
        for _ in 0..16 {
            sc.spawn(|| {
                let (mut b512, mut b1024): (Vec<(usize, u64)>, Vec<(usize, u64)>) = (vec![], vec![]);
                loop {
                    let start = next.fetch_add(4096, std::sync::atomic::Ordering::Relaxed);
                    if start >= count {
                        break;
                    }
                    for i in start..(start + 4096).min(count) {
                        let s = hunt_string(i);
                        let (c, chunks) = refimpl::hash::hash_to_point_traced(&s, 1024);
                        let _ = c;
                        // chunks read for n = 512: position of the 512-th accepted chunk
                        let mut acc = 0;
                        let mut used512 = 0;
                        for (k, &t) in chunks.iter().enumerate() {
                            if t < 61445 {
                                acc += 1;
                                if acc == 512 {
                                    used512 = k + 1;
                                    break;
                                }
                            }
                        }
                        b512.push((used512, i));
                        b1024.push((chunks.len(), i));
                    }
                    b512.sort_by(|a, b| b.cmp(a));
                    b512.truncate(keep);
                    b1024.sort_by(|a, b| b.cmp(a));
                    b1024.truncate(keep);
                }
                let mut g = best.lock().unwrap();
                g.0.extend(b512);
                g.1.extend(b1024);
            });
        }
    });
    let (mut a, mut b) = best.into_inner().unwrap();
    a.sort_by(|x, y| y.cmp(x));
    a.truncate(keep);
    b.sort_by(|x, y| y.cmp(x));
    b.truncate(keep);
    for (used, i) in a {
        println!("512 {} {}", used, hex(&hunt_string(i)));
    }
    for (used, i) in b {
        println!("1024 {} {}", used, hex(&hunt_string(i)));
    }
}

/// 48-byte strings: 40 bytes that double as a salt, then an 8-byte counter (the message).
fn hunt_string(i: u64) -> Vec<u8> {
    let mut s = vec![0x42u8; 40];
    s.extend_from_slice(&i.to_le_bytes());
    s
}
