//! C10 — signatures are spherical Gaussian: nothing about the secret basis leaks.
//! Statistical invariants over histories of signatures of one key.

use proptest::prelude::*;
use serde::{Deserialize, Serialize};
use serde_json::json;
use std::path::Path;

use crate::api::{self, seed_from, seed_hex};
use crate::engine::*;
use crate::util::{hex, mix, Hex};
use refimpl::params::params;
use refimpl::{codec, hash, lattice, stats, zq};

#[derive(Clone, Debug, Serialize, Deserialize)]
pub struct SphereCase {
    n: usize,
    seed: Hex,
    signatures: usize,
    msg_base: u64,
    /// number of (key) cases sharing the run's false-alarm budget
    tests: u32,
    /// every signature is the first one emitted after this many attempts that the signer itself
    /// discarded (forced through the signer's byte stream, see `util::RestartRng`)
    #[serde(default)]
    restarts: usize,
    /// further signatures projected only onto the two ends of the Gram-Schmidt profile
    #[serde(default)]
    extreme_extra: usize,
}

pub struct Spherical {
    pub signatures512: usize,
    pub signatures1024: usize,
    pub tests: u32,
    pub restarts: usize,
}

/// z for the pooled and per-bin second-moment tests (two-sided normal tail 8e-11 each).
const Z_POOLED: f64 = 6.5;
/// total false-alarm probability of the per-direction tests of one key
const P_DIRECTIONS: f64 = 1e-9;

/// Run `f(i)` for i in 0..count on the worker pool, results in order.
fn par_map<T: Send>(count: usize, threads: usize, f: impl Fn(usize) -> T + Sync) -> Vec<T> {
    let next = std::sync::atomic::AtomicUsize::new(0);
    let out = std::sync::Mutex::new(Vec::with_capacity(count));
    std::thread::scope(|sc| {
        for _ in 0..threads.max(1) {
            sc.spawn(|| loop {
                let i = next.fetch_add(1, std::sync::atomic::Ordering::Relaxed);
                if i >= count {
                    break;
                }
                let v = f(i);
                out.lock().unwrap().push((i, v));
            });
        }
    });
    let mut v = out.into_inner().unwrap();
    v.sort_by_key(|(i, _)| *i);
    v.into_iter().map(|(_, x)| x).collect()
}

impl Sub for Spherical {
    type Case = SphereCase;
    fn name(&self) -> &'static str {
        "spherical_signatures"
    }
    fn max_shrink_iters(&self) -> u32 {
        2
    }
    fn workers(&self, _env: &Env) -> usize {
        3 // each case is parallel inside; the Gram-Schmidt step of a case is sequential
    }
    fn batch(&self) -> usize {
        1
    }
    fn strategy(&self, _env: &Env) -> BoxedStrategy<SphereCase> {
        let (s512, s1024, tests, restarts) = (self.signatures512, self.signatures1024, self.tests, self.restarts);
        (prop_oneof![2 => Just(512usize), 1 => Just(1024usize)], any::<[u8; 32]>(), any::<u64>())
            .prop_map(move |(n, s, msg_base)| SphereCase { n, seed: seed_hex(&s), signatures: if n == 512 { s512 } else { s1024 }, msg_base, tests, restarts, extreme_extra: 0 })
            .boxed()
    }
    fn check(&self, c: &SphereCase, st: &mut Stats) -> Result<(), Fail> {
        let seed = seed_from(&c.seed).ok_or_else(|| Fail::new("harness:bad-replay", "seed must be 32 bytes"))?;
        let n = c.n;
        let p = params(n);
        let count = c.signatures;
        ensure!(count >= 200, "harness:bad-replay", "too few signatures for a statistical statement");
        let key = api::key(n, seed);
        let h = refimpl::keys::decode_pk(&key.pk_bytes, n).map_err(|e| Fail::new("sphere:pk", format!("public key bytes do not parse: {:?}", e)))?;
        let (f, g, cf, cg) = key.sk.fg();

        // ---- the history: signatures over distinct messages, observed through their bytes only.
        // Every signing thread first signs once with ANOTHER key of the same variant held in a local
        // slot and then overwrites that slot with the key under test ("key rotation in place"): the
        // distribution for a fixed key must not depend on which key the thread used before, even
        // when the new key object lives at the old one's address.
        let decoy = api::key(n, crate::util::seed32(mix(c.msg_base ^ 0xDEC0)));
        thread_local! {
            static SLOT: std::cell::RefCell<Option<(u64, api::Sk)>> = const { std::cell::RefCell::new(None) };
        }
        let tag = mix(c.msg_base ^ n as u64 ^ crate::util::fnv(&seed));
        // While the history is being signed, other threads of the process sign continuously with
        // DIFFERENT keys (one of the other variant, one of the same variant): the distribution for
        // a fixed key must not depend on what the rest of the process is signing.
        let other_variant = api::key(if n == 512 { 1024 } else { 512 }, crate::util::seed32(mix(c.msg_base ^ 0x0715E)));
        let stop_noise = std::sync::atomic::AtomicBool::new(false);
        let noise_signatures = std::sync::atomic::AtomicU64::new(0);
        let extra_retries = std::sync::atomic::AtomicU64::new(0);
        let noise_panic: std::sync::Mutex<Option<String>> = std::sync::Mutex::new(None);
        // whatever happens below, the noise threads must be told to stop
        struct StopOnDrop<'a>(&'a std::sync::atomic::AtomicBool);
        impl Drop for StopOnDrop<'_> {
            fn drop(&mut self) {
                self.0.store(true, std::sync::atomic::Ordering::Relaxed);
            }
        }
        let sigs: Vec<Result<Vec<f64>, Fail>> = std::thread::scope(|noise_scope| {
            for t in 0..6 {
                let (stop, made, noise_panic) = (&stop_noise, &noise_signatures, &noise_panic);
                let k = if t % 3 == 2 { &decoy } else { &other_variant };
                noise_scope.spawn(move || {
                    let mut i = 0u64;
                    while !stop.load(std::sync::atomic::Ordering::Relaxed) {
                        if let Err(p) = crate::engine::no_panic(|| api::sign(&i.to_le_bytes(), &k.sk)) {
                            *noise_panic.lock().unwrap() = Some(p);
                            break;
                        }
                        i += 1;
                    }
                    made.fetch_add(i, std::sync::atomic::Ordering::Relaxed);
                });
            }
            let _stop = StopOnDrop(&stop_noise);
            let out = par_map(count, 16, |j| {
            crate::engine::no_panic(|| {
            let msg = (c.msg_base ^ mix(j as u64)).to_le_bytes().to_vec();
            let sig = SLOT.with(|slot| {
                let mut slot = slot.borrow_mut();
                if slot.as_ref().map(|(t, _)| *t) != Some(tag) {
                    // first use on this thread: put the decoy into the slot, sign once with it, then
                    // replace it in place by the key under test
                    *slot = Some((0, decoy.sk.clone()));
                    let _ = api::sign(b"decoy", &slot.as_ref().unwrap().1);
                    let s = slot.as_mut().unwrap();
                    s.0 = tag;
                    s.1 = key.sk.clone();
                }
                if c.restarts == 0 {
                    return Ok(api::sign_with(&msg, &slot.as_ref().unwrap().1, Box::new(crate::util::chacha(mix(c.msg_base) ^ j as u64))).to_bytes());
                }
                let _ = falcon_rust::verif_hooks::take_sign_counters();
                let sig = api::sign_with(&msg, &slot.as_ref().unwrap().1, Box::new(crate::util::RestartRng::new(mix(c.msg_base) ^ j as u64, n, c.restarts))).to_bytes();
                let (norm, comp) = falcon_rust::verif_hooks::take_sign_counters();
                // the forcing must have done exactly what it is meant to do, or the sample says
                // nothing about the signer: that is a harness problem, not a violation
                if (norm as usize) < c.restarts {
                    return Err(Fail::new("harness:forcing", format!("forced {} discarded attempts but the signer counted only {} norm retries", c.restarts, norm)));
                }
                extra_retries.fetch_add(norm + comp - c.restarts as u64, std::sync::atomic::Ordering::Relaxed);
                Ok(sig)
            })?;
            let s2 = codec::decode(&sig[41..], n).ok_or_else(|| Fail::new("sphere:malformed", "an honest signature does not decompress"))?;
            let mut r_cat_m = sig[1..41].to_vec();
            r_cat_m.extend_from_slice(&msg);
            let cpt = hash::hash_to_point(&r_cat_m, n);
            let s2h = zq::negacyclic_mul_fast(&s2, &h);
            let s1: Vec<i64> = (0..n).map(|i| zq::centred(cpt[i] - s2h[i])).collect();
            let norm: i64 = s1.iter().chain(s2.iter()).map(|x| x * x).sum();
            if norm > p.bound {
                return Err(Fail::new("sphere:norm-bound", format!("an emitted signature has squared norm {} > floor(beta^2) = {}", norm, p.bound)));
            }
            Ok(s1.iter().chain(s2.iter()).map(|&x| x as f64).collect())
            })
            .unwrap_or_else(|p| Err(Fail::new(format!("sphere:sign-panic:{}", crate::engine::panic_site(&p)), format!("signing message {} of the history panicked: {}", j, p))))
            });
            stop_noise.store(true, std::sync::atomic::Ordering::Relaxed);
            out
        });
        st.add("signatures_made_concurrently_by_other_keys", noise_signatures.load(std::sync::atomic::Ordering::Relaxed));
        if let Some(p) = noise_panic.lock().unwrap().take() {
            return Err(Fail::new(format!("sphere:sign-panic:{}", crate::engine::panic_site(&p)), format!("a thread signing with ANOTHER key while the history was made panicked: {}", p)));
        }
        if c.restarts > 0 {
            // honest attempts fail about once in 10^4..10^6: more than that means forced bytes reached
            // the attempt that was meant to be honest
            let extra = extra_retries.load(std::sync::atomic::Ordering::Relaxed);
            ensure!(extra as usize <= 2 + count / 50, "harness:forcing", "{} unforced retries in {} signatures: the forcing stream is not aligned with the signer's attempts", extra, count);
            st.add("signatures_emitted_after_forced_restarts", count as u64);
            st.add(&format!("keys_with_{}_forced_restarts", c.restarts), 1);
        }
        let mut vecs: Vec<Vec<f64>> = Vec::with_capacity(count);
        for s in sigs {
            vecs.push(s?);
        }

        // ---- 2. pooled second moment
        let total: f64 = vecs.iter().map(|v| v.iter().map(|x| x * x).sum::<f64>()).sum();
        let dim = 2 * n;
        let samples = (dim * count) as f64;
        let ratio = total / samples / (p.sigma * p.sigma);
        let z = (ratio - 1.0) / (2.0 / samples).sqrt();
        st.range(&format!("pooled_second_moment_over_sigma2_{}", n), ratio);
        st.range("pooled_z", z);
        ensure!(z.abs() <= Z_POOLED, "sphere:pooled-second-moment", "Falcon-{}: mean squared coordinate of {} signatures is {:.5} sigma^2 (z = {:+.1}, allowed +-{}): the expected squared norm is not 2 n sigma^2", n, count, ratio, z, Z_POOLED);

        // ---- directions: Gram-Schmidt of the secret basis (rows in the tree's order) and the rows themselves
        // (s1, s2) = (t - z) B with B = [[g, -f], [G, -F]]: the lattice vector lives in the row space
        let order: Vec<usize> = (0..n).map(|k| zq::bitrev(k, p.logn)).collect();
        let rows = lattice::basis_rows(&f, &g, &cf, &cg, &order);
        let gs = lattice::gram_schmidt(&rows);
        let gs_norms: Vec<f64> = gs.iter().map(|v| lattice::norm(v)).collect();
        let unit = |vs: &Vec<Vec<f64>>| -> Vec<Vec<f64>> {
            vs.iter()
                .map(|v| {
                    let nv = lattice::norm(v);
                    v.iter().map(|x| x / nv).collect()
                })
                .collect()
        };
        let gs_dirs = unit(&gs);
        let row_dirs = unit(&rows);
        // the signature vector is (s1, s2) and the basis rows are (g, -f) / (G, -F): same coordinate order

        // moments of the projections, per direction: sum_j P and sum_j P^2
        let moments = |dirs: &Vec<Vec<f64>>| -> Vec<(f64, f64)> {
            par_map(dirs.len(), 16, |i| {
                let u = &dirs[i];
                let (mut s1, mut s2) = (0.0, 0.0);
                for v in &vecs {
                    let pr: f64 = v.iter().zip(u.iter()).map(|(a, b)| a * b).sum();
                    s1 += pr;
                    s2 += pr * pr;
                }
                (s1, s2)
            })
        };
        let m_gs = moments(&gs_dirs);
        let m_rows = moments(&row_dirs);
        let sigma2 = p.sigma * p.sigma;
        let nn = count as f64;

        // ---- 3. Gram-Schmidt directions binned by ||b~_i||: eight quantile bins
        let mut idx: Vec<usize> = (0..dim).collect();
        idx.sort_by(|&a, &b| gs_norms[a].partial_cmp(&gs_norms[b]).unwrap());
        let mut worst_bin = 0.0f64;
        for b in 0..8 {
            let members = &idx[b * dim / 8..(b + 1) * dim / 8];
            let s: f64 = members.iter().map(|&i| m_gs[i].1).sum();
            let cnt = (members.len() * count) as f64;
            let r = s / cnt / sigma2;
            let zb = (r - 1.0) / (2.0 / cnt).sqrt();
            worst_bin = worst_bin.max(zb.abs());
            ensure!(
                zb.abs() <= Z_POOLED,
                "sphere:gram-schmidt-bin",
                "Falcon-{}: along the Gram-Schmidt directions with ||b~|| in [{:.1}, {:.1}] (bin {} of 8) the second moment is {:.4} sigma^2 (z = {:+.1}, allowed +-{}): the width of the signature distribution depends on the secret basis",
                n, gs_norms[members[0]], gs_norms[*members.last().unwrap()], b + 1, r, zb, Z_POOLED
            );
        }
        st.range("max_abs_z_over_gram_schmidt_bins", worst_bin);

        // ---- 3b. the two ends of the Gram-Schmidt profile (the dim/64 shortest and the dim/64
        // longest directions: leaves next to sigma_max and next to sigma_min), with many more
        // signatures than the full test can afford: `extra` further signatures are made (plain
        // seeded signing, no rotation) and projected onto these directions only
        if c.extreme_extra > 0 && c.restarts == 0 {
            let k = (dim / 64).max(8);
            let ends: [(&str, Vec<usize>); 2] = [("shortest", idx[..k].to_vec()), ("longest", idx[dim - k..].to_vec())];
            let extra = c.extreme_extra;
            let sums: Vec<Result<[f64; 2], Fail>> = par_map(extra, 16, |j| {
                crate::engine::no_panic(|| {
                    let msg = (c.msg_base ^ mix(0xE47 + j as u64)).to_le_bytes().to_vec();
                    let sig = api::sign_with(&msg, &key.sk, Box::new(crate::util::chacha(mix(c.msg_base ^ 0xE47) ^ j as u64))).to_bytes();
                    let s2 = codec::decode(&sig[41..], n).ok_or_else(|| Fail::new("sphere:malformed", "an honest signature does not decompress"))?;
                    let mut r_cat_m = sig[1..41].to_vec();
                    r_cat_m.extend_from_slice(&msg);
                    let cpt = hash::hash_to_point(&r_cat_m, n);
                    let s2h = zq::negacyclic_mul_fast(&s2, &h);
                    let v: Vec<f64> = (0..n).map(|i| zq::centred(cpt[i] - s2h[i]) as f64).chain(s2.iter().map(|&x| x as f64)).collect();
                    let mut out = [0.0f64; 2];
                    for (e, (_, members)) in ends.iter().enumerate() {
                        for &i in members {
                            let pr: f64 = v.iter().zip(gs_dirs[i].iter()).map(|(a, b)| a * b).sum();
                            out[e] += pr * pr;
                        }
                    }
                    Ok(out)
                })
                .unwrap_or_else(|p| Err(Fail::new(format!("sphere:sign-panic:{}", crate::engine::panic_site(&p)), format!("signing panicked: {}", p))))
            });
            let mut tot = [0.0f64; 2];
            for r in sums {
                let r = r?;
                tot[0] += r[0];
                tot[1] += r[1];
            }
            for (e, (name, members)) in ends.iter().enumerate() {
                let from_history: f64 = members.iter().map(|&i| m_gs[i].1).sum();
                let cnt = (members.len() * (count + extra)) as f64;
                let r = (tot[e] + from_history) / cnt / sigma2;
                let z = (r - 1.0) / (2.0 / cnt).sqrt();
                st.range(&format!("z_of_the_{}_gram_schmidt_directions", name), z);
                ensure!(
                    z.abs() <= Z_POOLED,
                    "sphere:gram-schmidt-extreme",
                    "Falcon-{}: along the {} {} Gram-Schmidt directions (||b~|| in [{:.2}, {:.2}]) the second moment over {} signatures is {:.4} sigma^2 (z = {:+.1}, allowed +-{}): the width depends on the secret basis at the end of its Gram-Schmidt profile",
                    n, members.len(), name, gs_norms[members[0]], gs_norms[*members.last().unwrap()], count + extra, r, z, Z_POOLED
                );
            }
            st.add("signatures_for_the_ends_of_the_gram_schmidt_profile", extra as u64);
        }

        // ---- 4. every single direction: variance (exact chi-square tail) and mean
        let tests_total = (4 * dim) as f64 * c.tests.max(1) as f64; // 2 families x 2 tests x 2n directions x keys
        let p_each = P_DIRECTIONS / tests_total * c.tests.max(1) as f64; // budget per key, then per test
        let p_each = p_each / 1.0;
        let chi_hi = stats::chi2_isf(p_each / 2.0, nn);
        let chi_lo = {
            // lower quantile by bisection on the cdf
            let (mut lo, mut hi) = (0.0, nn);
            for _ in 0..200 {
                let mid = 0.5 * (lo + hi);
                if stats::chi2_cdf(mid, nn) < p_each / 2.0 {
                    lo = mid;
                } else {
                    hi = mid;
                }
            }
            lo
        };
        let z_mean = stats::normal_isf(p_each / 2.0);
        for (family, ms) in [("Gram-Schmidt direction", &m_gs), ("basis row", &m_rows)] {
            let (mut wv, mut wm) = (0.0f64, 0.0f64);
            for (i, &(s1, s2)) in ms.iter().enumerate() {
                let chi = s2 / sigma2;
                let zm = s1 / nn.sqrt() / p.sigma;
                wv = wv.max(((chi - nn) / (2.0 * nn).sqrt()).abs());
                wm = wm.max(zm.abs());
                let which = if i < n { format!("rotation {} of (g, -f)", order[i]) } else { format!("rotation {} of (G, -F)", order[i - n]) };
                ensure!(
                    chi >= chi_lo && chi <= chi_hi,
                    "sphere:direction-variance",
                    "Falcon-{}: along {} #{} ({}) the second moment over {} signatures is {:.4} sigma^2 (chi^2 = {:.1}, allowed [{:.1}, {:.1}])",
                    n, family, i, which, count, chi / nn, chi, chi_lo, chi_hi
                );
                ensure!(zm.abs() <= z_mean, "sphere:direction-mean", "Falcon-{}: along {} #{} ({}) the mean projection over {} signatures is {:+.2} standard errors from zero (allowed +-{:.2})", n, family, i, which, count, zm, z_mean);
            }
            st.range(&format!("max_abs_z_variance_per_{}", family.replace(' ', "_")), wv);
            st.range(&format!("max_abs_z_mean_per_{}", family.replace(' ', "_")), wm);
        }
        st.range(&format!("gram_schmidt_norm_{}", n), gs_norms.iter().cloned().fold(0.0, f64::max));
        st.range(&format!("gram_schmidt_norm_{}", n), gs_norms.iter().cloned().fold(f64::INFINITY, f64::min));
        st.add("signatures", count as u64);
        st.add(&format!("keys_{}", n), 1);
        st.add("directions_tested", (2 * dim) as u64);
        // each (key, direction bin) with >= 1000 signatures is one non-trivial unit
        if count >= 1000 {
            st.nontrivial(&(n, seed));
            st.nontrivial_enumerated += 8;
        }
        st.sample(&format!("key_{}", n), || json!({"n": n, "key_seed": hex(&seed), "signatures": count, "pooled_second_moment_over_sigma2": ratio, "pooled_z": z, "max_abs_z_bins": worst_bin, "variance_thresholds_chi2": [chi_lo, chi_hi], "mean_threshold_z": z_mean}));
        Ok(())
    }
}

const META: Meta = Meta {
    rule: "proptest (variant, key seed, message base); for each key N signatures over distinct messages are made with a seeded uniform byte stream (SignRng hook), by threads that first signed once with another key of the same variant held in the same memory slot (key rotation in place), while six other threads sign continuously with two other keys (other variant, same variant), and observed through their bytes only: s2 decoded, s1 = c - s2 h recomputed. Directions come from the secret basis: the 2n orthonormal Gram-Schmidt directions of [[g,-f],[G,-F]] (rows in the ffLDL tree's bit-reversed rotation order) and the 2n normalised basis rows. Invariants: every signature within floor(beta^2); pooled second moment = sigma^2 within z = 6.5; second moment per octile bin of ||b~_i|| = sigma^2 within z = 6.5; the same for the dim/64 shortest and the dim/64 longest Gram-Schmidt directions (the leaves next to sigma_max and sigma_min) over 12 000-14 000 further signatures per key that are projected onto those directions only; for every single direction the second moment within the exact chi-square_N interval and the mean within a normal interval, Bonferroni-corrected to 1e-9 per key. Non-trivial = a key with N >= 1000 signatures (counted once) plus its 8 direction bins; distinct by (variant, seed).",
    assumptions: &[
        "the honest distribution differs from the ideal spherical Gaussian only by the norm rejection (about 1e-6) and the compression rejection (about 1e-7), far below the resolution of these tests, so tolerances are purely statistical",
        "design false-alarm probability per key: 2 * 8e-11 * 9 (pooled and bins) + 1e-9 (directions) < 3e-9; the run is a deterministic function of VERIF_SEED",
        "a leak confined to directions outside the tested families, or smaller than the resolution (about 1% in sigma, 2-3% per bin at the quick tier), is not seen",
    ],
};

pub fn run(env: &Env, replay: Option<&Path>) -> i32 {
    let mut report = Report::new();
    let (k512, k1024, s512, s1024) = env.tier.pick((2usize, 1usize, 4000usize, 2000usize), (16, 8, 20_000, 10_000));
    let tests = (k512 + k1024 + 2) as u32;
    let (extra512, extra1024) = env.tier.pick((12_000usize, 14_000usize), (40_000, 40_000));
    let sub = Spherical { signatures512: s512, signatures1024: s1024, tests, restarts: 0 };
    let subs: [&dyn DynSub; 1] = [&sub];
    if let Some(p) = replay {
        if let Err(e) = replay_file(env, &subs, p, &mut report) {
            eprintln!("harness: {}", e);
            return 2;
        }
        return finish(env, report, &META);
    }
    replay_corpus(env, &subs, &mut report);
    let cases: Vec<SphereCase> = api::seed_list(env.seed, 0xC10_1024, k1024)
        .into_iter()
        .map(|s| (1024usize, s))
        .chain(api::seed_list(env.seed, 0xC10, k512).into_iter().map(|s| (512usize, s)))
        .map(|(n, s)| SphereCase { n, seed: seed_hex(&s), signatures: if n == 512 { s512 } else { s1024 }, msg_base: mix(env.seed ^ 0xC10), tests, restarts: 0, extreme_extra: if n == 512 { extra512 } else { extra1024 } })
        // and the signatures a signer emits after it has discarded one or two attempts itself
        .chain(api::seed_list(env.seed, 0xC10_0001, 1).into_iter().map(|s| SphereCase { n: 512, seed: seed_hex(&s), signatures: s512 / 2, msg_base: mix(env.seed ^ 0xC10_0001), tests, restarts: 1, extreme_extra: 0 }))
        .chain(api::seed_list(env.seed, 0xC10_0002, 1).into_iter().map(|s| SphereCase { n: 1024, seed: seed_hex(&s), signatures: s1024 / 2, msg_base: mix(env.seed ^ 0xC10_0002), tests, restarts: 2, extreme_extra: 0 }))
        .collect();
    drive_enumerated(env, &sub, cases.into_iter(), &mut report);
    finish(env, report, &META)
}
