//! C08 — every signature carries a fresh random 40-byte salt (invariants over histories of calls).

use proptest::prelude::*;
use serde::{Deserialize, Serialize};
use serde_json::json;
use std::collections::{HashMap, HashSet};
use std::path::Path;

use crate::api;
use crate::child::run_child;
use crate::engine::*;
use crate::util::{hex, mix, unhex};
use refimpl::stats;

#[derive(Clone, Debug, Serialize, Deserialize)]
pub struct HistoryCase {
    /// seeds of the keys used (variant, seed index)
    keys512: usize,
    keys1024: usize,
    key_base: u64,
    /// total number of sign calls made by threads of this process
    signs: usize,
    /// threads started at the beginning / in the middle of the history
    threads_first: usize,
    threads_late: usize,
    /// distinct messages per key (small, so that (key, message) pairs repeat)
    messages_per_key: usize,
    /// child processes, each signing one fixed (key, message) four times
    children: usize,
    plan: u64,
}

pub struct SaltHistory;

const CHI2_P: f64 = 1e-12;

impl Sub for SaltHistory {
    type Case = HistoryCase;
    fn name(&self) -> &'static str {
        "salt_history"
    }
    fn max_shrink_iters(&self) -> u32 {
        4
    }
    fn workers(&self, _env: &Env) -> usize {
        2 // a history runs its own threads
    }
    fn strategy(&self, env: &Env) -> BoxedStrategy<HistoryCase> {
        let signs = env.tier.pick(50_000usize, 400_000usize);
        let children = env.tier.pick(8usize, 16usize);
        (1usize..=4, 1usize..=2, any::<u64>(), 6usize..=12, 6usize..=12, 1usize..=4, any::<u64>())
            .prop_map(move |(keys512, keys1024, key_base, threads_first, threads_late, messages_per_key, plan)| HistoryCase { keys512, keys1024, key_base, signs, threads_first, threads_late, messages_per_key, children, plan })
            .boxed()
    }
    fn check(&self, c: &HistoryCase, st: &mut Stats) -> Result<(), Fail> {
        let specs: Vec<(usize, [u8; 32])> = (0..c.keys512).map(|i| (512usize, crate::util::seed32(c.key_base ^ mix(i as u64)))).chain((0..c.keys1024).map(|i| (1024usize, crate::util::seed32(c.key_base ^ mix(1000 + i as u64))))).collect();
        api::warm(&specs, 16);
        let keys: Vec<std::sync::Arc<api::Key>> = specs.iter().map(|(n, s)| api::key(*n, *s)).collect();
        let threads = c.threads_first + c.threads_late;
        let per_thread = (c.signs / threads.max(1)).max(1);
        // one record per sign call: (thread, key, message index, signature bytes)
        type Rec = (usize, usize, usize, Vec<u8>);
        // Which key OBJECT a thread signs with: the shared one (by reference), its own clone of it, or
        // its own copy decoded from the key's bytes. Clones and copies are taken when the thread
        // starts, i.e. before any signing in the first wave and after thousands of signatures in
        // the second: state carried inside a key object must not make two objects replay salts.
        let run_wave = |first: usize, count: usize| -> Vec<Rec> {
            std::thread::scope(|sc| {
                let hs: Vec<_> = (first..first + count)
                    .map(|t| {
                        let keys = &keys;
                        sc.spawn(move || {
                            let own: Vec<api::Sk> = match t % 3 {
                                1 => keys.iter().map(|k| k.sk.clone()).collect(),
                                2 => keys.iter().map(|k| api::Sk::from_bytes(k.n, &k.sk_bytes).expect("own secret key bytes decode")).collect(),
                                _ => vec![],
                            };
                            let mut out: Vec<Rec> = Vec::with_capacity(per_thread);
                            for i in 0..per_thread {
                                let r = mix(c.plan ^ ((t as u64) << 40) ^ i as u64);
                                // keys with n = 1024 are twice as slow: use them for a fifth of the calls
                                let k = if r % 5 == 0 && c.keys1024 > 0 { c.keys512 + (r >> 8) as usize % c.keys1024 } else { (r >> 8) as usize % c.keys512.max(1) };
                                let k = k.min(keys.len() - 1);
                                let m = (r >> 24) as usize % c.messages_per_key;
                                let msg = message(c.plan, k, m);
                                let sk = if own.is_empty() { &keys[k].sk } else { &own[k] };
                                out.push((t, k, m, api::sign_unbounded(&msg, sk).to_bytes()));
                            }
                            out
                        })
                    })
                    .collect();
                hs.into_iter().flat_map(|h| h.join().expect("signing thread panicked")).collect()
            })
        };
        let mut records = run_wave(0, c.threads_first);
        // threads started mid-history are fresh threads with a fresh thread-local generator
        records.extend(run_wave(c.threads_first, c.threads_late));
        // fresh processes signing one fixed (key, message)
        let child_outputs: Vec<Result<Vec<String>, String>> = std::thread::scope(|sc| {
            let hs: Vec<_> = (0..c.children)
                .map(|ch| {
                    let keys = &keys;
                    sc.spawn(move || {
                        let k = ch % keys.len().min(2); // the first keys: cheap to regenerate in the child
                        let msg = message(c.plan, k, 0);
                        run_child(&["salts".into(), keys[k].n.to_string(), hex(&keys[k].seed), hex(&msg), "4".into()])
                    })
                })
                .collect();
            hs.into_iter().map(|h| h.join().unwrap_or_else(|_| Err("child runner panicked".into()))).collect()
        });
        for (ch, out) in child_outputs.into_iter().enumerate() {
            let k = ch % keys.len().min(2);
            let lines = out.map_err(|e| Fail::new("harness:child", e))?;
            ensure!(lines.len() == 4, "harness:child", "child printed {} signatures", lines.len());
            for l in lines.iter() {
                let sig = unhex(l).map_err(|e| Fail::new("harness:child", e))?;
                records.push((threads + ch, k, 0, sig));
            }
        }
        // ---- invariants over the whole history
        let mut salts: HashMap<Vec<u8>, usize> = HashMap::with_capacity(records.len());
        let mut sigs: HashSet<Vec<u8>> = HashSet::with_capacity(records.len());
        let mut pairs: HashMap<(usize, usize), usize> = HashMap::new();
        let mut first_of_thread: HashMap<usize, Vec<u8>> = HashMap::new();
        for (idx, (t, k, m, sig)) in records.iter().enumerate() {
            ensure!(sig.len() == refimpl::params::params(keys[*k].n).sig_len, "salt:sig-length", "signature of {} bytes", sig.len());
            let salt = sig[1..41].to_vec();
            if let Some(prev) = salts.insert(salt.clone(), idx) {
                let (pt, pk, pm, _) = &records[prev];
                return Err(Fail::new(
                    "salt:repeated",
                    format!("salt {} was used twice: call {} (thread/process {}, key {}, message {}) and call {} (thread/process {}, key {}, message {})", hex(&salt), prev, pt, pk, pm, idx, t, k, m),
                ));
            }
            ensure!(sigs.insert(sig.clone()), "salt:repeated-signature", "two calls returned byte-identical signatures");
            *pairs.entry((*k, *m)).or_insert(0) += 1;
            first_of_thread.entry(*t).or_insert(salt);
        }
        let n = records.len();
        // every bit position takes both values; every byte position is uniform
        if n >= 2000 {
            for bit in 0..320 {
                let ones = records.iter().filter(|r| (r.3[1 + bit / 8] >> (bit % 8)) & 1 == 1).count();
                ensure!(ones != 0 && ones != n, "salt:constant-bit", "bit {} of the salt (byte {}) is {} in all {} signatures", bit, bit / 8, if ones == 0 { 0 } else { 1 }, n);
            }
        }
        if n >= 20_000 {
            let mut worst = 1.0f64;
            for pos in 0..40 {
                let mut hist = [0u64; 256];
                for r in &records {
                    hist[r.3[1 + pos] as usize] += 1;
                }
                let e = n as f64 / 256.0;
                let chi2: f64 = hist.iter().map(|&o| (o as f64 - e).powi(2) / e).sum();
                let p = stats::chi2_sf(chi2, 255.0);
                worst = worst.min(p);
                ensure!(p >= CHI2_P, "salt:byte-not-uniform", "salt byte {} is not uniform over {} signatures: chi^2 = {:.1} on 255 degrees of freedom, p = {:e}; most frequent value {} occurs {} times (expected {:.1})", pos, n, chi2, p, hist.iter().enumerate().max_by_key(|(_, &c)| c).map(|(v, _)| v).unwrap_or(0), hist.iter().max().unwrap_or(&0), e);
            }
            st.range("min_byte_position_chi2_p_value", worst);
        }
        let repeated_pairs = pairs.values().filter(|&&c| c >= 2).count();
        st.add("salts_compared", n as u64);
        st.add("sign_calls_in_threads", (threads * per_thread) as u64);
        st.add("sign_calls_in_child_processes", (c.children * 4) as u64);
        st.add("fresh_threads", threads as u64);
        st.add("fresh_threads_started_mid_history", c.threads_late as u64);
        st.add("child_processes", c.children as u64);
        st.add("distinct_first_salts_of_threads_and_processes", first_of_thread.len() as u64);
        st.add("key_message_pairs_signed_more_than_once", repeated_pairs as u64);
        st.add("max_signatures_of_one_key_message_pair", *pairs.values().max().unwrap_or(&0) as u64);
        st.count("histories");
        if repeated_pairs > 0 && (threads > 1 || c.children > 0) {
            st.nontrivial(&(c.plan, c.key_base));
            // count the distinct non-trivial steps too: each repeated pair, fresh thread and child
            st.nontrivial_enumerated += (repeated_pairs + threads + c.children) as u64;
        }
        st.sample("history", || json!({"keys": specs.iter().map(|(n, s)| json!({"n": n, "seed": hex(s)})).collect::<Vec<_>>(), "threads_first": c.threads_first, "threads_late": c.threads_late, "messages_per_key": c.messages_per_key, "children": c.children, "sign_calls": n, "first_salts": records.iter().take(3).map(|r| hex(&r.3[1..41])).collect::<Vec<_>>()}));
        Ok(())
    }
}

fn message(plan: u64, k: usize, m: usize) -> Vec<u8> {
    let s = mix(plan ^ ((k as u64) << 16) ^ m as u64);
    // message index 1 (when a key has more than one message) is a LARGE message whose length is
    // the same for every key of the history: buffers reused across calls, block-wise hashing and
    // other size-dependent paths are exercised, with equal-length messages following each other
    let len = if m == 1 { [4100usize, 5000, 9000, 70_000][(mix(plan) % 4) as usize] } else { (s % 40) as usize };
    (0..len).map(|j| mix(s + j as u64) as u8).collect()
}

/// Salts of signatures whose signing loop was driven through its retry branches: the same
/// (key, message) is signed with several different zero-biased scripted streams (SignRng hook), each
/// forcing norm and/or compression retries; all salts must differ - a retry must not replace the
/// salt by something derived from the message or the key.
#[derive(Clone, Debug, Serialize, Deserialize)]
pub struct RetryCase {
    n: usize,
    key_base: u64,
    m: u64,
    streams: Vec<u64>,
}

pub struct RetrySalts;

impl Sub for RetrySalts {
    type Case = RetryCase;
    fn name(&self) -> &'static str {
        "salts_after_retries"
    }
    fn max_shrink_iters(&self) -> u32 {
        16
    }
    fn strategy(&self, env: &Env) -> BoxedStrategy<RetryCase> {
        let base = env.seed;
        (prop_oneof![1 => Just(512usize), 1 => Just(1024usize)], 0u64..2, any::<u64>(), proptest::collection::vec(any::<u64>(), 4..8)).prop_map(move |(n, k, m, streams)| RetryCase { n, key_base: base ^ k, m, streams }).boxed()
    }
    fn check(&self, c: &RetryCase, st: &mut Stats) -> Result<(), Fail> {
        let key = api::key(c.n, crate::util::seed32(mix(c.key_base ^ 0x5a17)));
        let msg = c.m.to_le_bytes();
        let mut seen: HashMap<Vec<u8>, (u64, u64, u64)> = HashMap::new();
        for &stream in &c.streams {
            let _ = falcon_rust::verif_hooks::take_sign_counters();
            let rng = crate::util::BiasedRng::new(stream, 3000 + (stream % 1500) as u32, 400_000);
            let sig = api::sign_with(&msg, &key.sk, Box::new(rng)).to_bytes();
            let (norm, comp) = falcon_rust::verif_hooks::take_sign_counters();
            let salt = sig[1..41].to_vec();
            if let Some((other, on, oc)) = seen.insert(salt.clone(), (stream, norm, comp)) {
                return Err(Fail::new("salt:repeated-after-retry", format!("Falcon-{}: the same message signed with two different randomness streams ({} and {}) carries the same salt {}; retries taken: {} norm / {} compression and {} / {}", c.n, other, stream, hex(&salt), on, oc, norm, comp)));
            }
            if norm + comp > 0 {
                st.count("signatures_after_a_forced_retry");
                st.nontrivial(&(c.n, c.m, stream));
            }
            st.count("scripted_signatures");
        }
        st.sample("retry_salts", || json!({"n": c.n, "message": c.m, "streams": c.streams.len()}));
        Ok(())
    }
}

const MACHINE_ORACLE: crate::machine::Oracle = crate::machine::Oracle::Salts;
const MACHINE_OPS: usize = 60;

/// The API history machine (harness/src/machine.rs) with this property's invariant.
pub struct ApiHistory;

impl Sub for ApiHistory {
    type Case = crate::machine::History;
    fn name(&self) -> &'static str {
        "api_history"
    }
    fn max_shrink_iters(&self) -> u32 {
        200
    }
    fn strategy(&self, _env: &Env) -> BoxedStrategy<crate::machine::History> {
        crate::machine::strategy(MACHINE_OPS)
    }
    fn check(&self, c: &crate::machine::History, st: &mut Stats) -> Result<(), Fail> {
        crate::machine::run(c, MACHINE_ORACLE, st)?;
        st.nontrivial(&format!("{:?}", c.ops));
        st.sample("api_history", || serde_json::json!({"variants": c.variants, "ops": c.ops.iter().take(12).collect::<Vec<_>>()}));
        Ok(())
    }
}

const META: Meta = Meta {
    rule: "proptest histories of sign calls with the real entropy path (no scripted randomness): 1-4 Falcon-512 and 1-2 Falcon-1024 keys, 1-4 messages per key (so (key, message) pairs repeat thousands of times; message no. 1 of every key is a large message of 4100-70000 bytes whose length is shared by all keys of the history), 6-12 threads started at the beginning and 6-12 fresh threads started mid-history (a third of the threads sign with the shared key object, a third with their own clone of it, a third with their own copy decoded from its bytes; clones and copies of the second wave are taken after thousands of signatures), and child processes (the harness re-executes itself) each signing one fixed (key, message) four times. Invariants over the whole history: all salts pairwise distinct (which includes: same (key, message) signed twice => different salts; first salts of fresh threads and fresh processes distinct), all signature byte strings distinct, every one of the 320 salt bit positions takes both values, every salt byte position passes a chi-square test against the uniform distribution on 256 values at p = 1e-12. Non-trivial = a history with a repeated (key, message) pair and more than one thread or a child process; the count adds each repeated pair, fresh thread and child process of such a history.",
    assumptions: &[
        "api_history sub-check: generated histories of 6-60 operations over four in-place key slots (load a fresh object, regenerate, clone, encode/decode, drop, sign and verify on this or a fresh thread; messages include the empty one and two large ones of equal length), interpreted against the obvious model with this property's invariant",
        "salts_after_retries sub-check: the one place where C08 uses scripted signer randomness (zero-biased streams through the SignRng hook) - only to force the retry branches; with an honest signer the salt is then the first 40 bytes of each stream, distinct because the streams are",
        "'drawn from the OS-seeded generator' is observable only through these consequences: a generator with >= 2^64 states seeded badly but differently per process would pass",
        "false alarms: a collision of honest 320-bit salts has probability < 1e-80; the 40 chi-square tests together < 4e-11; a constant bit among >= 2000 honest salts < 1e-599",
        "birthday bound: N salts detect any salt source with fewer than about N^2/2 states with probability > 1/2 (50 000 salts per history: about 2^30 states; 400 000 in the thorough tier: 2^36)",
    ],
};

pub fn run(env: &Env, replay: Option<&Path>) -> i32 {
    let mut report = Report::new();
    let subs: [&dyn DynSub; 3] = [&SaltHistory, &ApiHistory, &RetrySalts];
    if let Some(p) = replay {
        if let Err(e) = replay_file(env, &subs, p, &mut report) {
            eprintln!("harness: {}", e);
            return 2;
        }
        return finish(env, report, &META);
    }
    replay_corpus(env, &subs, &mut report);
    drive(env, &SaltHistory, env.tier.pick(2, 8), &mut report);
    drive(env, &ApiHistory, env.tier.pick(2_000, 80_000), &mut report);
    drive(env, &RetrySalts, env.tier.pick(300, 20_000), &mut report);
    if env.tier == Tier::Thorough {
        // one long history on two threads only: 70 000 consecutive signatures per thread, past any
        // 16-bit per-thread call counter
        let long = HistoryCase { keys512: 1, keys1024: 0, key_base: env.seed ^ 0x10_06, signs: 140_000, threads_first: 1, threads_late: 1, messages_per_key: 2, children: 0, plan: crate::util::mix(env.seed ^ 0xC08) };
        drive_enumerated(env, &SaltHistory, std::iter::once(long), &mut report);
    }
    finish(env, report, &META)
}
