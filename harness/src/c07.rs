//! C07 — signature compression is lossless and canonical (Algorithms 17/18).
//! Differential against the bit-level reference codec, in both directions, plus a complete
//! enumeration of all short strings.

use falcon_rust::verif_hooks::{compress, decompress};
use proptest::prelude::*;
use serde::{Deserialize, Serialize};
use serde_json::json;
use std::path::Path;

use crate::engine::*;
use crate::gen;
use crate::util::{to_i64, Hex};
use refimpl::codec;

/// compress(v, budget) against the reference encoder, then back through decompress.
#[derive(Clone, Debug, Serialize, Deserialize)]
pub struct VecCase {
    v: Vec<i16>,
    budget: usize,
}

pub struct VecCodec;

impl Sub for VecCodec {
    type Case = VecCase;
    fn restrictable(&self) -> bool {
        true
    }
    fn name(&self) -> &'static str {
        "compress_vector"
    }
    fn strategy(&self, _env: &Env) -> BoxedStrategy<VecCase> {
        let n = prop_oneof![4 => 1usize..=8, 3 => 9usize..=100, 2 => Just(512usize), 2 => Just(1024usize), 1 => 101usize..=1100];
        n.prop_flat_map(|n| {
            (gen::vector_strategy(n), prop_oneof![3 => -2i64..=2, 2 => 3i64..40, 1 => Just(i64::MAX), 1 => -30i64..-2]).prop_map(move |(v, slack)| {
                let need = (codec::total_bits(&to_i64(&v)) + 7) / 8;
                let budget = if slack == i64::MAX {
                    match n {
                        512 => 625,
                        1024 => 1239,
                        _ => 2 * n,
                    }
                } else {
                    (need as i64 + slack).max(0) as usize
                };
                VecCase { v, budget }
            })
        })
        .boxed()
    }
    fn check(&self, c: &VecCase, st: &mut Stats) -> Result<(), Fail> {
        if c.v.is_empty() || c.v.iter().any(|x| x.unsigned_abs() >= 12160) {
            return Ok(()); // outside the property's domain
        }
        let v64 = to_i64(&c.v);
        let want = codec::encode(&v64, c.budget);
        let got = compress(&c.v, c.budget);
        ensure!(compress(&c.v, c.budget) == got, "compress:not-repeatable", "a second compress of the same vector gives a different result");
        let bits = codec::total_bits(&v64);
        ensure!(
            got.is_some() == want.is_some(),
            "compress:fits",
            "vector of {} entries needs {} bits, budget {} bytes: reference {} but compress returned {}",
            c.v.len(),
            bits,
            c.budget,
            if want.is_some() { "encodes" } else { "fails" },
            if got.is_some() { "Some" } else { "None" }
        );
        if let (Some(g), Some(w)) = (&got, &want) {
            ensure!(g == w, "compress:bytes", "compress output differs from Algorithm 17 at byte {}", g.iter().zip(w.iter()).position(|(a, b)| a != b).unwrap_or(g.len().min(w.len())));
            let back = decompress(g, c.v.len());
            ensure!(back.as_ref() == Some(&c.v), "decompress:roundtrip", "decompress(compress(v)) = {:?}.. instead of v", back.map(|b| b.into_iter().take(8).collect::<Vec<_>>()));
            st.count("encoded");
        } else {
            st.count("did_not_fit");
        }
        let max_run = c.v.iter().map(|x| x.unsigned_abs() >> 7).max().unwrap_or(0);
        let edge = (bits as i64 - 8 * c.budget as i64).abs() <= 8;
        if edge {
            st.count("within_one_byte_of_budget");
        }
        if max_run >= 90 {
            st.count("run_ge_90");
        }
        if edge || max_run >= 90 {
            st.nontrivial(&(&c.v, c.budget));
        }
        st.sample("vector", || json!({"n": c.v.len(), "budget": c.budget, "bits": bits, "head": c.v.iter().take(6).collect::<Vec<_>>()}));
        Ok(())
    }
}

/// decompress(x, n) against the reference decoder; accepted strings must re-compress to x.
#[derive(Clone, Debug, Serialize, Deserialize)]
pub struct StrCase {
    x: Hex,
    n: usize,
}

pub struct StrCodec;

pub fn check_string(x: &[u8], n: usize, st: &mut Stats) -> Result<(), Fail> {
    check_string_opt(x, n, st, true)
}

pub fn check_string_opt(x: &[u8], n: usize, st: &mut Stats, repeat: bool) -> Result<(), Fail> {
    let want = codec::decode_traced(x, n);
    let got = decompress(x, n);
    if repeat {
        ensure!(decompress(x, n) == got, "decompress:not-repeatable", "a second decompress of the same string gives a different result");
    }
    match (&got, &want) {
        (Some(g), Ok(w)) => {
            ensure!(to_i64(g) == *w, "decompress:value", "decompress returns {:?}.. but Algorithm 18 gives {:?}..", g.iter().take(6).collect::<Vec<_>>(), w.iter().take(6).collect::<Vec<_>>());
            let re = compress(g, x.len());
            ensure!(re.as_deref() == Some(x), "compress:recompress", "accepted string does not re-compress to itself");
            st.count("accepted");
            st.nontrivial(&(x, n));
        }
        (None, Err((why, pos))) => {
            st.count(&format!("rejected_{:?}", why));
            // failed only in the last coefficient / padding: close to acceptance
            if *pos + 24 >= 8 * x.len() || matches!(why, codec::Reject::Padding | codec::Reject::NegativeZero | codec::Reject::RunTooLong) {
                st.nontrivial(&(x, n));
            }
        }
        (Some(g), Err((why, pos))) => {
            return Err(Fail::new(
                format!("decompress:accepts:{:?}", why),
                format!("decompress accepts a string that Algorithm 18 rejects ({:?} at bit {} of {}), returning {:?}..", why, pos, 8 * x.len(), g.iter().rev().take(3).collect::<Vec<_>>()),
            ));
        }
        (None, Ok(_)) => {
            return Err(Fail::new("decompress:rejects-valid", "decompress rejects a well-formed encoding".to_string()));
        }
    }
    Ok(())
}

impl Sub for StrCodec {
    type Case = StrCase;
    fn restrictable(&self) -> bool {
        true
    }
    fn name(&self) -> &'static str {
        "decompress_string"
    }
    fn strategy(&self, _env: &Env) -> BoxedStrategy<StrCase> {
        let grammar = gen::shape_strategy().prop_flat_map(|(n, len)| gen::body_strategy(n, len)).prop_map(|spec| StrCase { x: Hex(spec.render()), n: spec.n });
        let random = (1usize..=10, 1usize..=14).prop_flat_map(|(n, len)| (Just(n), proptest::collection::vec(any::<u8>(), len))).prop_map(|(n, x)| StrCase { x: Hex(x), n });
        prop_oneof![5 => grammar, 1 => random].boxed()
    }
    fn check(&self, c: &StrCase, st: &mut Stats) -> Result<(), Fail> {
        if c.n == 0 {
            return Ok(());
        }
        check_string(&c.x.0, c.n, st)?;
        if c.x.0.len() >= 600 {
            st.count("production_size");
        }
        st.sample(if c.x.0.len() >= 600 { "string_production" } else { "string_small" }, || json!({"n": c.n, "len": c.x.0.len(), "x_head": crate::util::hex(&c.x.0[..c.x.0.len().min(12)])}));
        Ok(())
    }
}

/// All strings of one length for one n: the case names a block of 2^16 strings (the top bytes).
#[derive(Clone, Debug, Serialize, Deserialize)]
pub struct BlockCase {
    len: usize,
    n: usize,
    /// the leading len-2 bytes (empty for len <= 2); the low two bytes are enumerated
    prefix: Hex,
}

pub struct StrBlock;

impl Sub for StrBlock {
    type Case = BlockCase;
    fn restrictable(&self) -> bool {
        true
    }
    fn name(&self) -> &'static str {
        "decompress_all_strings"
    }
    fn strategy(&self, _env: &Env) -> BoxedStrategy<BlockCase> {
        (1usize..=3).prop_flat_map(|len| (Just(len), 1usize..=(8 * len / 9 + 1), proptest::collection::vec(any::<u8>(), len.saturating_sub(2)))).prop_map(|(len, n, p)| BlockCase { len, n, prefix: Hex(p) }).boxed()
    }
    fn check(&self, c: &BlockCase, st: &mut Stats) -> Result<(), Fail> {
        let mut x = vec![0u8; c.len];
        let fixed = c.len.saturating_sub(2);
        x[..fixed].copy_from_slice(&c.prefix.0[..fixed]);
        let free = c.len - fixed;
        let mut local = Stats::default();
        for low in 0..(1u32 << (8 * free)) {
            for k in 0..free {
                x[fixed + k] = (low >> (8 * (free - 1 - k))) as u8;
            }
            if let Err(f) = no_panic(|| check_string_opt(&x, c.n, &mut local, false)).unwrap_or_else(|p| Err(Fail::new(format!("decompress:panic:{}", panic_site(&p)), format!("panicked: {}", p)))) {
                return Err(Fail::new(f.key, format!("x = {} n = {}: {}", crate::util::hex(&x), c.n, f.msg)).with_minimal(json!({"x": crate::util::hex(&x), "n": c.n})).into_sub("decompress_string"));
            }
        }
        st.evaluations += (1u64 << (8 * free)) - 1;
        st.nontrivial_enumerated += local.nontrivial.len() as u64;
        for (k, v) in local.counters {
            st.add(&format!("enumerated_{}", k), v);
        }
        st.add(&format!("enumerated_len{}_n{}", c.len, c.n), 1u64 << (8 * free));
        Ok(())
    }
}

const META: Meta = Meta {
    rule: "vectors: proptest (n in 1..1100 with emphasis on 1-8, 512, 1024; Gaussian, uniform on +-12159, sparse-with-huge, constant entries; budget = exact need -2..+2 bytes, generous, or the production budgets); non-trivial = encoding within one byte of the budget or a unary run >= 90. Strings: grammar-built bodies (coefficient encodings steered so that one of the last coefficients starts within [-24,+8] bits of the buffer end, runs 88-98/120-135/250-262/505-520, zero/one/garbage tails, bit flips) at small shapes and at 512/625 and 1024/1239, plus random short strings; non-trivial = accepted, or rejected within 24 bits of the end / for padding, negative zero or run length. Complete enumeration of all strings of length <= 3 (quick) / <= 4 for n in {3,4} (thorough) for every n <= floor(8L/9)+1; those are distinct by construction.",
    assumptions: &[
        "oracle: refimpl::codec, a bit-string transcription of Algorithms 17/18 that rejects unary runs of 95 or more (the codec's documented domain |v| < 12160)",
        "compress is only called with non-empty vectors whose entries are below 12160 in magnitude; decompress only with n >= 1",
    ],
};

pub fn run(env: &Env, replay: Option<&Path>) -> i32 {
    let mut report = Report::new();
    let cold = crate::coldstart::ColdStart("C07");
    let subs: [&dyn DynSub; 4] = [&VecCodec, &StrCodec, &StrBlock, &cold];
    if let Some(p) = replay {
        if let Err(e) = replay_file(env, &subs, p, &mut report) {
            eprintln!("harness: {}", e);
            return 2;
        }
        return finish(env, report, &META);
    }
    replay_corpus(env, &subs, &mut report);
    // complete enumeration of short strings
    let mut blocks: Vec<BlockCase> = vec![];
    for len in 1..=3usize {
        for n in 1..=(8 * len / 9 + 1) {
            if len <= 2 {
                blocks.push(BlockCase { len, n, prefix: Hex(vec![]) });
            } else {
                for p in 0..=255u8 {
                    blocks.push(BlockCase { len, n, prefix: Hex(vec![p]) });
                }
            }
        }
    }
    if env.tier == Tier::Thorough {
        for n in 3..=4usize {
            for p in 0..=0xFFFFu32 {
                blocks.push(BlockCase { len: 4, n, prefix: Hex(vec![(p >> 8) as u8, p as u8]) });
            }
        }
    }
    drive_enumerated(env, &StrBlock, blocks.into_iter(), &mut report);
    report.notes.push("the enumerated sub-domain (short strings) is complete; the property as a whole is sampled, so exhaustive stays false".into());
    drive(env, &VecCodec, env.tier.pick(400_000, 4_000_000), &mut report);
    drive(env, &StrCodec, env.tier.pick(300_000, 3_000_000), &mut report);
    // fresh processes whose threads make their first calls at the same moment
    report.notes.push(crate::coldstart::NOTE.to_string());
    drive(env, &cold, env.tier.pick(240, 6000), &mut report);
    finish(env, report, &META)
}
